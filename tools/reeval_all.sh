#!/bin/bash
# reeval_all.sh [budget] [id-regex]: re-applies every kept seeded change to /repo in turn and runs the check(s) that are
# recorded as catching it (meta.json "ran": every "vsim check <id> -> VIOLATION"); prints one line per
# change and a summary of those no longer caught. /repo must be clean; it is restored after every change.
B=${1:-40}
PAT=${2:-}
cd /verif
miss=0
for d in seeded/*/; do
  id=$(basename $d)
  [ -n "$PAT" ] && ! echo "$id" | grep -Eq "$PAT" && continue
  props=$(python3 - "$d" <<'PY'
import json,re,sys
m=json.load(open(sys.argv[1]+'meta.json'))
txt=' '.join(m['ran'])
ps=[]
for mm in re.finditer(r'vsim check (C\d\d)((?: and C\d\d)*) -> (?:first missed[^:]*: )?(?:VIOLATION|[a-z-]+)', txt):
    pass
# every "vsim check <ids> ..." segment that reports a VIOLATION (or lists kinds) and is not a "stays quiet" remark
for seg in txt.split('vsim check ')[1:]:
    head=re.match(r'((?:C\d\d)(?:(?:,| and) C\d\d)*)', seg)
    if not head: continue
    if 'stays quiet' in seg.split('. ')[0] or 'stay quiet' in seg.split('. ')[0]: continue
    if 'VIOLATION' in seg or re.search(r'-> (?:same|stuck|[a-z]+-[a-z-]+)', seg):
        ps+=re.findall(r'C\d\d', head.group(1))
seen=[]
for p in ps:
    if p not in seen: seen.append(p)
print(' '.join(seen[:2]))
PY
)
  [ -z "$props" ] && { echo "SKIP $id (no catching check recorded)"; continue; }
  out=$(./tools/eval_mutant.sh /verif/$d $B $props 2>&1 | grep EVAL)
  if echo "$out" | grep -q "exit=1"; then echo "OK   $id: $(echo "$out" | sed 's/EVAL [^ ]* //; s/ C[0-9]* quick:.*//' | tr '\n' '|' | cut -c1-160)"; else echo "MISS $id: $(echo "$out" | cut -c1-200)"; miss=$((miss+1)); fi
done
echo "missed: $miss"
