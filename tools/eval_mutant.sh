#!/bin/bash
# eval_mutant.sh <mutant_dir> <budget_s> <prop>...: applies the change to /repo, runs the named checks, reverts.
set -u
M=$(realpath "$1"); B=$2; shift 2
cd /verif
git -C /repo status --short | grep -q . && { echo "/repo not clean"; exit 2; }
git -C /repo apply "$M/patch.diff" || { echo "patch does not apply"; exit 2; }
for P in "$@"; do
  OUT=$(./bin/vsim check $P --budget $B 2>&1); RC=$?
  V=$(echo "$OUT" | grep -c '^VIOLATION')
  K=$(echo "$OUT" | grep '^  kind=' | sed 's/ signature.*//' | sort | uniq -c | tr '\n' ';')
  echo "EVAL $(basename $M) $P exit=$RC violations=$V $K $(echo "$OUT" | tail -1 | cut -c1-80)"
done
git -C /repo checkout -- .
