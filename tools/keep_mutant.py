#!/usr/bin/env python3
"""keep_mutant.py <src_mutant_dir> <id> <property> <needs> <ran...>: copies a confirmed breaking change into
/verif/seeded/<id>/ with meta.json."""
import sys, json, shutil, os
src, mid, prop, needs = sys.argv[1:5]
ran = sys.argv[5:]
dst = f"/verif/seeded/{mid}"
os.makedirs(dst, exist_ok=True)
shutil.copy(f"{src}/patch.diff", f"{dst}/patch.diff")
for f in ("zz_mutant_demo_test.go", "DEMO_PATH.txt", "README.md"):
    if os.path.exists(f"{src}/{f}"):
        shutil.copy(f"{src}/{f}", f"{dst}/{f}")
meta = {"id": mid, "breaks_property": prop, "needs_to_manifest": needs, "ran": ran}
json.dump(meta, open(f"{dst}/meta.json", "w"), indent=1)
print("kept", dst)
