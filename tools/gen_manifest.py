#!/usr/bin/env python3
"""Regenerates /verif/MANIFEST.json from the table below (kept in one place so that the
manifest is always schema-valid and in step with what the driver implements)."""
import json, subprocess

HOOK_COMMITS = ["ff49be5", "b69ae2b"]
FIX_COMMITS = ["20bf16f", "aefc590", "f10f830", "24ec5ad", "9659f5f", "7e5c136", "f869cf2", "0e309c1", "9424101", "82caa03", "fadb2b4", "29dde06", "b3d3332", "5ee6f39"]

NA = {
 "C12": "codec round-trip is a pure function of (input bytes, level); nothing in it depends on scheduling, time, I/O or faults, so a simulator would only be an input generator in disguise (DESIGN.md section 0)",
 "C13": "content-encoding negotiation is a pure decision table over (client Accept-Encoding, stored variants, size vs threshold, content type vs filter); no schedule/clock/fault dimension (DESIGN.md section 0)",
 "C14": "location routing is a pure function of (configured locations, host, request-URI); no schedule/clock/fault dimension (DESIGN.md section 0)",
 "C17": "validation and YAML round-trip are pure functions of a configuration document; no schedule/clock/fault dimension (DESIGN.md section 0)",
}

# property -> (level category, design ref, text, note, technique)
CHECKS = {
 "C01": ("exploration", "7.1",
   "seeded search over schedules (uniform / random-priority / starvation policies) x clock movements x expiry/refetch epochs of concurrent bursts on the real request pipeline; interval oracle on the origin's request log vs the clients' log plus the scheduler's own observation of which request was parked behind which fetch and who released it. A clean batch means no counterexample among the explored interleavings, not a proof.",
   "trusts the generated yield points (every lock / channel operation of pike's packages) as the only places where interleaving matters; origin, clock and listener are simulated; canonical Cache-Control only (the header language belongs to C03)",
   "deterministic simulation: seeded scheduler + fake clock, history oracle"),
}

CHECKS.update({
 "C02": ("exploration", "7.2",
   "seeded search over schedules x fetch outcomes {cacheable, uncacheable, undecodable body, transport error, never answers + proxy timeout, mid-body abort -> panic} in any sequence over epochs, with purges and an optional store; the scheduler's stuck detector (no enabled action after advancing the simulated clock by more than an hour) plus a served-or-explained oracle on every request and a final probe per key.",
   "liveness is decided within bounds: <= 1500 steps per run, clock horizon of one simulated hour; a step-budget overrun is counted as inconclusive, never reported",
   "deterministic simulation: seeded scheduler + fault injection at the origin seam, deadlock/bounded-liveness detector"),
 "C03": ("exploration", "7.3",
   "seeded sampling of the origin's header language (directive order, casing, spacing, several header lines, Set-Cookie, Age forms, statuses, methods) checked through state and time: every reply the reference predicate says must not be stored is followed by further requests of its key (some concurrent with the fetch) and must never be served to them; cache-status labels are compared with the origin's request log. One-directional, as the statement is 'stored only if'.",
   "the header language is an input space that is sampled, not enumerated; inputs the statement does not pin down (overflowing numbers, malformed Age with a positive lifetime) are treated as ambiguous and assert nothing",
   "deterministic simulation: seeded header grammar through store->reuse histories, label vs upstream-log oracle"),
 "C04": ("exploration", "7.4",
   "timed histories on the simulated clock with requests placed at expiry-1s, inside the expiry second, and the second after, over several refetch epochs; half strictly sequential with the clock moving only between requests (exact oracle), half concurrent with clock movement inside requests (jitter-sound interval oracle: a hit is stale only if it is stale under the most lenient placement of pike's timestamps).",
   "interval oracle can miss a violation that hides inside an interval but cannot invent one; canonical Cache-Control only",
   "deterministic simulation: fake clock + timed histories, interval oracle"),
 "C07": ("exploration", "7.7",
   "hit-for-pass histories on the simulated clock for periods {unset, 0s, negative, 1s, 2s, 5s, 300s}: requests surely inside the period must each reach the origin once and never be parked (scheduler observation) - non-queueing is decided with a withholding schedule (origin replies of the key are delivered only when nothing else can move); after the period the single-flight oracle applies again; the default period is bracketed at +299s/+302s.",
   "a request counts as inside / after the period only when that holds for every possible placement of pike's marker timestamp",
   "deterministic simulation: fake clock, withholding schedule, scheduler observation of parked requests"),
})

CHECKS.update({
 "C05": ("exploration", "7.5",
   "seeded sampling of origin encodings x client Accept-Encoding lists x body classes (empty, 1B, around the threshold, large, incompressible, >10x compressible) x content types x statuses x per-run knobs (levels incl. out-of-range, min-length, filter, upstream Accept-Encoding override), delivered on every path the scheduler can create (fetching request, waiter, later hit with another Accept-Encoding, hit after eviction + reload from the simulated store, hit-for-pass, passed methods); decode-and-compare oracle with the harness's own codecs on self-identifying bodies.",
   "bodies, encodings and knobs are an input space that is sampled; the path dimension (who serves the response) is what the scheduler adds",
   "deterministic simulation: self-describing origin replies, decode-and-compare on every delivery path"),
 "C06": ("exploration", "7.6",
   "confusable key sets forced into one or two shards with per-shard LRU limits of 1-3 under concurrent mixed traffic and expiry; every response must carry the self-identifying origin reply of exactly the requester's (method, Host, request-URI).",
   "shard choice is made through the verif shard hook (the runtime hash seed is not reproducible); collisions are forced rather than found",
   "deterministic simulation: forced shard collisions + eviction churn, echo oracle"),
 "C11": ("exploration", "7.11",
   "cache sizes 1..40 and {63,64,65,127,128,1000,1023,1024,1025,4096} with populations larger than the size; online invariant after every scheduler step: resident entries <= size; in sequential histories every eviction is compared with a reference LRU list per shard.",
   "residency and evictions are observed through the verif hooks (lru.Len and the lru's eviction callback); shard membership is asked of the implementation",
   "deterministic simulation: online residency invariant + reference LRU model"),
 "C18": ("exploration", "7.18",
   "two caches / two servers sharing an origin; named, unnamed, absent-key and absent-cache purges placed before, during (origin withheld) and after fetches with expiry, with and without the simulated store; oracles: no hit from an entry installed before a completed purge, untouched keys / caches keep hitting, persisted copy gone, purge never waits for an in-flight fetch, all waiters complete.",
   "a fetch still in flight when the purge runs may legitimately be installed afterwards (stated exception in C01/C18); unnamed purges run as one atomic scheduler section because sync.Map iteration order is not reproducible",
   "deterministic simulation: purge x fetch x expiry histories under a seeded scheduler"),
})

CHECKS.update({
 "C08": ("fault_enumeration", "7.8",
   "crash / graceful stop + restart on a simulated disk (durable map + acknowledged-but-unsynced writes; on a kill each unsynced write is independently kept, lost or torn at a random offset); the kill is a controller action taken at an arbitrary scheduler step, so it lands before, inside and after every yield point of every task (inside Cacheable after the waiters were released and before the save, while a Set is parked in the store, with fetches in flight); evict/reload histories with an LRU smaller than the working set; store TTL enforcement exact / late / never. Oracle: anything served without upstream contact after a restart or reload is an unaltered origin reply for that key inside its original lifetime with Age continuing from the original fetch; every request after the restart completes and is served normally.",
   "badger / redis / mongo are never run: what is verified is pike's use of a store (what it writes, when, with which TTL, what it does with what it reads back), not the engines' own crash safety; os.Exit skipping store.Close in main is outside the simulation",
   "deterministic simulation: crash-point sampling over scheduler steps on a simulated disk"),
 "C09": ("fault_enumeration", "7.9",
   "applicable part only: records captured from the run itself (hit records with identity and gzip/br variants, multi-valued and non-ASCII headers, empty and large bodies, hit-for-pass records) are fed back through the real lookup path cut at every offset of a window (thorough tier: every offset 0..len-1 of the record = exhaustive per record), with seeded single-bit flips and with random bytes; no panic, no stuck request, allocation bounded by a multiple of the record size, every truncated record is a miss, and the key is neither a permanent error nor an immortal entry afterwards.",
   "the algebraic Bytes/FromBytes round trip over arbitrary structured entries and coverage-guided mutation are pure input testing and are not claimed; bit flips that leave the record structurally valid cannot be detected by pike (the format has no integrity check): for flips only robustness is asserted",
   "deterministic simulation: torn / corrupted records injected at the store seam, truncation enumeration"),
 "C10": ("fault_enumeration", "7.10",
   "per store call a drawn outcome - Get {ok, not-found although present, error, delayed with pike's locks held, truncated, garbage}, Set {ok, error, delayed, silently dropped}, Delete {ok, error, delayed} - landing inside operations with waiters, expiry and purges in progress; liveness, freshness (stale-hit, Age) and response-integrity oracles stay armed unchanged, plus the single-flight/retention oracle when the LRU is large; final probes after every lifetime (no immortal entry, no permanent error).",
   "single bit flips inside an otherwise well-formed record are not part of this fault plan (undetectable without an integrity check in the format; robustness under flips is covered by C09); purge effectiveness on the persisted copy is not asserted when the Delete itself was failed by the plan",
   "deterministic simulation: per-call store fault plans under concurrent waiters, expiry, purge"),
})

CHECKS.update({
 "C15": ("exploration", "7.15",
   "per run a location with a drawn subset of {rewrite, added request headers, added query parameters, added response headers} and an upstream Accept-Encoding override, plus a catch-all location on a second upstream; clients with extra headers, bodies, queries, matching / non-matching validators and Range reach the cache in cold, waiter, hit and hit-for-pass roles produced by the scheduler; the request logged by the simulated origin is compared with the client's request transformed by a small reference model, conditionals must be withheld exactly on the fetching role, the client gets 304 iff its validators match, and 304 / 206 replies are never replayed.",
   "documented rewrite forms only (prefix removal); standard reverse-proxy header handling (hop-by-hop removal, X-Forwarded-For, empty User-Agent) is whitelisted; whether pike restores the in-memory request afterwards is a mechanism, not asserted",
   "deterministic simulation: origin-side request log vs reference transformation, role produced by scheduling"),
 "C16": ("exploration", "7.16",
   "sequences of 1-5 valid configurations obtained by random mutations are applied by a reload task whose five steps interleave with client traffic at every yield; afterwards a probe battery is answered by the live-updated instance, the process image is replaced by a fresh instance with the final configuration (same simulated world) and the same battery is answered again: observation vectors (origin reached, request as seen by it, status, headers, Content-Encoding, encoded length, cache label) must be equal; requests to the unchanged server must not fail during updates, its cached entries must survive, a removed server must refuse service after its grace period.",
   "updates are applied one at a time as main.go does (single watcher loop); the fresh instance is a re-initialisation inside the same OS process (all pike registries reset, compress registry restored to its built-in state); restart-only settings (cache size / hit-for-pass / store of a surviving cache, log format, admin) are held constant as documented",
   "deterministic simulation: reload task interleaved with traffic + differential probing against a fresh instance"),
 "C19": ("fault_enumeration", "7.19",
   "scripted up / down / black-hole sequences on 1-4 upstream servers (primary / backup mixes, all four policies, tcp and http health checks) on the simulated network; the real health-check state machine of vicanso/upstream runs on the fake ticker, only the dial is simulated; after each event and a settle period a sequential batch must reach only servers that are up, backups only without a healthy primary, round robin evenly, 5xx at once with none healthy, and recover by itself.",
   "uses a copy of vicanso/upstream v0.2.0 with a two-line dial / ping-transport seam (third_party/upstream); assertions are made only after a settle time that covers the checker's worst case (sequential probes, dropped ticks)",
   "deterministic simulation: network fault sequences on the dial seam + fake clock"),
})

CHECKS.update({
 "C20": ("exploration", "7.20",
   "two instruments on the same seeded schedules of mixed traffic (hits, fetches, passes, Accept-Encoding and conditional variants, purges, repeated reloads, lifetimes of 1-2s): (1) the normal build with response-integrity, served-or-explained and immutability oracles (the same entry served twice to equal requests yields equal output); (2) a -race build in which the simulator's own synchronisation is hidden from the detector, so that serialised execution does not order accesses pike itself leaves unordered - a race is reported with the seed and schedule of the run in which the detector fired and replays in a fresh process.",
   "race reports are attributed by stack: only reports whose innermost non-stdlib frames on both sides are pike's (or its dependencies') count, reports touching harness frames are counted as harness noise in the evidence; happens-before edges that pike's own dependencies create (sync.Pool of elton contexts, the logger's mutex) are real and stay visible to the detector",
   "deterministic simulation + Go race detector with the scheduler's synchronisation hidden"),
})

PENDING = {}

def main():
    props = [json.loads(l) for l in open('/verif/properties.jsonl')]
    ids = [p['id'] for p in props]
    checks = []
    for pid in ids:
        if pid in CHECKS:
            cat, ref, text, note, tech = CHECKS[pid]
            checks.append({
                "property_id": pid,
                "quick_cmd": f"./bin/vsim check {pid} --tier quick",
                "thorough_cmd": f"./bin/vsim check {pid} --tier thorough",
                "evidence_file": f"/verif/evidence/{pid}.json",
                "replay_cmd_template": "./bin/vsim replay {path}",
                "engine": "vsim",
                "level_claimed": {"category": cat, "text": text, "design_ref": "DESIGN.md section " + ref},
                "level_note": note,
                "technique": tech,
            })
    na = []
    for pid in ids:
        if pid in CHECKS:
            continue
        reason = NA.get(pid) or PENDING.get(pid) or "check not built yet in this session (claimed in DESIGN.md section 0; listed here until its check is registered)"
        na.append({"property_id": pid, "reason": reason})
    m = {
        "version": 1,
        "setup_cmd": "./setup.sh",
        "hooks": {
            "guard": "verif (Go build tag)",
            "enable": "go test -c -tags verif -overlay <generated yield-point overlay> ./worker (done by ./bin/vsim for every check, from /repo's working tree)",
            "baseline_off_cmd": "cd /repo && go test -vet=off -count=1 -timeout 25m ./...",
            "source_commits": HOOK_COMMITS,
            "add_only": True,
        },
        "engines": [{
            "name": "vsim",
            "path": "/verif/sim",
            "serves_properties": sorted(CHECKS.keys()),
            "kind_free_text": "deterministic simulation with fault injection: seeded scheduler over generated yield points, testing/synctest fake clock, simulated origin / store / network, history oracles, delta-debugging minimiser, replay files",
        }],
        "checks": checks,
        "not_applicable": na,
        "notes": "See DESIGN.md. Exit codes of every check: 0 held, 1 VIOLATION (replays), 2 build/harness trouble. known_findings.json lists recorded and fixed defects.",
    }
    json.dump(m, open('/verif/MANIFEST.json', 'w'), indent=1)
    print("wrote MANIFEST.json with", len(checks), "checks,", len(na), "not claimed")

main()
