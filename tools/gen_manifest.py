#!/usr/bin/env python3
"""Regenerates /verif/MANIFEST.json from the table below (kept in one place so that the
manifest is always schema-valid and in step with what the driver implements)."""
import json, subprocess

HOOK_COMMITS = ["ff49be5"]

NA = {
 "C12": "codec round-trip is a pure function of (input bytes, level); nothing in it depends on scheduling, time, I/O or faults, so a simulator would only be an input generator in disguise (DESIGN.md section 0)",
 "C13": "content-encoding negotiation is a pure decision table over (client Accept-Encoding, stored variants, size vs threshold, content type vs filter); no schedule/clock/fault dimension (DESIGN.md section 0)",
 "C14": "location routing is a pure function of (configured locations, host, request-URI); no schedule/clock/fault dimension (DESIGN.md section 0)",
 "C17": "validation and YAML round-trip are pure functions of a configuration document; no schedule/clock/fault dimension (DESIGN.md section 0)",
}

# property -> (level category, design ref, text, note, technique)
CHECKS = {
 "C01": ("exploration", "7.1",
   "seeded search over schedules (uniform / random-priority / starvation policies) x clock movements x expiry/refetch epochs of concurrent bursts on the real request pipeline; interval oracle on the origin's request log vs the clients' log plus the scheduler's own observation of which request was parked behind which fetch and who released it. A clean batch means no counterexample among the explored interleavings, not a proof.",
   "trusts the generated yield points (every lock / channel operation of pike's packages) as the only places where interleaving matters; origin, clock and listener are simulated; canonical Cache-Control only (the header language belongs to C03)",
   "deterministic simulation: seeded scheduler + fake clock, history oracle"),
}

PENDING = {}

def main():
    props = [json.loads(l) for l in open('/verif/properties.jsonl')]
    ids = [p['id'] for p in props]
    checks = []
    for pid in ids:
        if pid in CHECKS:
            cat, ref, text, note, tech = CHECKS[pid]
            checks.append({
                "property_id": pid,
                "quick_cmd": f"./bin/vsim check {pid} --tier quick",
                "thorough_cmd": f"./bin/vsim check {pid} --tier thorough",
                "evidence_file": f"/verif/evidence/{pid}.json",
                "replay_cmd_template": "./bin/vsim replay {path}",
                "engine": "vsim",
                "level_claimed": {"category": cat, "text": text, "design_ref": "DESIGN.md section " + ref},
                "level_note": note,
                "technique": tech,
            })
    na = []
    for pid in ids:
        if pid in CHECKS:
            continue
        reason = NA.get(pid) or PENDING.get(pid) or "check not built yet in this session (claimed in DESIGN.md section 0; listed here until its check is registered)"
        na.append({"property_id": pid, "reason": reason})
    m = {
        "version": 1,
        "setup_cmd": "./setup.sh",
        "hooks": {
            "guard": "verif (Go build tag)",
            "enable": "go test -c -tags verif -overlay <generated yield-point overlay> ./worker (done by ./bin/vsim for every check, from /repo's working tree)",
            "baseline_off_cmd": "cd /repo && go test -vet=off -count=1 -timeout 25m ./...",
            "source_commits": HOOK_COMMITS,
            "add_only": True,
        },
        "engines": [{
            "name": "vsim",
            "path": "/verif/sim",
            "serves_properties": sorted(CHECKS.keys()),
            "kind_free_text": "deterministic simulation with fault injection: seeded scheduler over generated yield points, testing/synctest fake clock, simulated origin / store / network, history oracles, delta-debugging minimiser, replay files",
        }],
        "checks": checks,
        "not_applicable": na,
        "notes": "See DESIGN.md. Exit codes of every check: 0 held, 1 VIOLATION (replays), 2 build/harness trouble. known_findings.json lists recorded and fixed defects.",
    }
    json.dump(m, open('/verif/MANIFEST.json', 'w'), indent=1)
    print("wrote MANIFEST.json with", len(checks), "checks,", len(na), "not claimed")

main()
