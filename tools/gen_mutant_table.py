#!/usr/bin/env python3
"""gen_mutant_table.py: rewrites the table of section 16.6 of DESIGN.md from seeded/*/meta.json."""
import json, glob, re
rows = []
for f in sorted(glob.glob('/verif/seeded/*/meta.json')):
    m = json.load(open(f))
    ran = [r for r in m['ran'] if not r.startswith('tools/verify_mutant.sh')]
    esc = lambda s: s.replace('|', '\\|').replace('\n', ' ')
    rows.append('| %s | %s | %s | %s |' % (m['id'], m['breaks_property'], esc(m['needs_to_manifest']), esc('; '.join(ran))))
table = '| seeded change | breaks | needs | caught by / what had to be strengthened |\n|---|---|---|---|\n' + '\n'.join(rows) + '\n'
s = open('/verif/DESIGN.md').read()
a = s.index('| seeded change | breaks |')
b = a
lines = s[a:].split('\n')
n = 0
for l in lines:
    if not l.startswith('|'):
        break
    n += len(l) + 1
s = s[:a] + table + s[a + n:]
open('/verif/DESIGN.md', 'w').write(s)
print(len(rows), 'rows')
