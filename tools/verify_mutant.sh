#!/bin/bash
# verify_mutant.sh <mutant_dir>: confirms in a scratch worktree that the change compiles, passes the
# 65 baseline tests, and that the demonstration fails with it and passes without it.
set -u
export GOFLAGS=-mod=mod GOPROXY=off GOSUMDB=off GOTOOLCHAIN=local
M=$(realpath "$1")
WT=/tmp/wt/verify-$$
git -C /repo worktree add -q --detach "$WT" HEAD || exit 2
cleanup() { git -C /repo worktree remove --force "$WT" >/dev/null 2>&1; }
trap cleanup EXIT
cd "$WT"
git apply "$M/patch.diff" || { echo "RESULT patch-does-not-apply"; exit 1; }
go build ./... || { echo "RESULT does-not-build"; exit 1; }
go test -vet=off -count=1 -json -timeout 25m ./... 2>/dev/null | python3 -c "
import sys,json
res={}
for l in sys.stdin:
    try: e=json.loads(l)
    except: continue
    if e.get('Test') and e['Action'] in('pass','fail'): res[e['Package']+'::'+e['Test']]=e['Action']
base=json.load(open('/root/.vp/BASELINE.json'))
bad=[t for t in base['stable_pass'] if res.get(t)!='pass']
print('BASELINE with change:', len(base['stable_pass'])-len(bad), 'of', len(base['stable_pass']), 'pass', bad)
sys.exit(1 if bad else 0)
" || { echo "RESULT baseline-tests-fail-with-change"; exit 1; }
DP=$(cat "$M/DEMO_PATH.txt" | tr -d '[:space:]')
cp "$M/zz_mutant_demo_test.go" "$WT/$DP"
PKG=./$(dirname "$DP")
go test -vet=off -count=1 -run 'Mutant|Demo|ZZ|Zz' "$PKG" > /tmp/wt/verify-with.log 2>&1; WITH=$?
# run every test of the demo file if the name pattern matched nothing
if grep -q "no tests to run" /tmp/wt/verify-with.log; then
  NAMES=$(grep -o '^func Test[A-Za-z0-9_]*' "$WT/$DP" | sed 's/func //' | paste -sd'|')
  go test -vet=off -count=1 -run "^($NAMES)\$" "$PKG" > /tmp/wt/verify-with.log 2>&1; WITH=$?
else
  NAMES='Mutant|Demo|ZZ|Zz'
fi
git apply -R "$M/patch.diff"
go test -vet=off -count=1 -run "$NAMES" "$PKG" > /tmp/wt/verify-without.log 2>&1; WITHOUT=$?
echo "demo with change: exit $WITH (expect !=0); demo without change: exit $WITHOUT (expect 0)"
if [ $WITH -ne 0 ] && [ $WITHOUT -eq 0 ]; then echo "RESULT confirmed"; exit 0; fi
tail -5 /tmp/wt/verify-with.log; tail -5 /tmp/wt/verify-without.log
echo "RESULT demo-does-not-discriminate"; exit 1
