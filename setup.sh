#!/bin/bash
# Builds the driver and warms the Go build cache (offline, files on disk only).
set -e
export GOFLAGS=-mod=mod GOPROXY=off GOSUMDB=off GOTOOLCHAIN=local
cd /verif/sim
cp /repo/go.sum go.sum
mkdir -p /verif/bin
go1.26.8 build -o /verif/bin/vsim ./cmd/vsim
/verif/bin/vsim warm
