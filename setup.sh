#!/bin/bash
# Builds the driver and warms the Go build cache (offline, files on disk only).
set -e
export GOFLAGS=-mod=mod GOPROXY=off GOSUMDB=off GOTOOLCHAIN=local
ROOT="$(cd "$(dirname "$0")" && pwd)"
cd "$ROOT/sim"
cp /repo/go.sum go.sum
mkdir -p "$ROOT/bin"
go1.26.8 build -o "$ROOT/bin/vsim" ./cmd/vsim
cd "$ROOT"
"$ROOT/bin/vsim" warm
