#!/bin/bash
# dev helper: instrument + build worker into /tmp/vs_ov, run a spec
set -e
export GOFLAGS=-mod=mod GOPROXY=off GOSUMDB=off GOTOOLCHAIN=local
cd /verif/sim
rm -f /tmp/vs_ov/out.json
rm -rf /tmp/vs_ov/cache /tmp/vs_ov/server /tmp/vs_ov/location /tmp/vs_ov/upstream /tmp/vs_ov/compress /tmp/vs_ov/store
go1.26.8 run ./cmd/instr /tmp/vs_ov >/dev/null
go1.26.8 test -c -tags verif $RACE -overlay /tmp/vs_ov/overlay.json -o /tmp/vs_ov/worker.test ./worker
prof=${1:-C01}; count=${2:-200}; seed=${3:-1}
echo "{\"profile\":\"$prof\",\"tier\":\"quick\",\"seed\":$seed,\"from\":0,\"count\":$count,\"out\":\"/tmp/vs_ov/out.json\"}" > /tmp/vs_ov/spec.json
VSIM_SPEC=/tmp/vs_ov/spec.json /tmp/vs_ov/worker.test -test.run TestWorker -test.timeout 0 2>&1 | tail -20
python3 - <<'PY'
import json,collections
r=json.load(open('/tmp/vs_ov/out.json'))
print({k:(v if not isinstance(v,(list,dict)) else len(v)) for k,v in r.items()})
print('faults',r['faults']); print('probes',r['probes'])
c=collections.Counter((v['violation']['property'],v['violation']['kind']) for v in r['violations'])
print(c)
PY
