//go:debug randautoseed=0
package worker

import (
	"encoding/json"
	"fmt"
	"hash/fnv"
	"io"
	"log"
	"os"
	"testing"
	"time"

	"verif/sim/engine"
)

// Spec is what the driver asks one worker process to do.
type Spec struct {
	Profile   string     `json:"profile"`
	Tier      string     `json:"tier"`
	Seed      uint64     `json:"seed"`  // base seed (VERIF_SEED)
	From      int        `json:"from"`  // first run index
	Count     int        `json:"count"` // number of runs
	Out       string     `json:"out"`
	Replay    *Replay    `json:"replay,omitempty"`
	Replays   []Replay   `json:"replays,omitempty"`   // batch of candidates (minimiser)
	Repeat    int        `json:"repeat,omitempty"`    // replay: repeat the run up to N times until a violation shows (code under test with its own nondeterminism)
	PlanOnly  bool       `json:"plan_only,omitempty"` // only generate the plans of the runs (crash isolation)
	MaxWallS  float64    `json:"max_wall_s,omitempty"`
	KeepTrace bool       `json:"keep_trace,omitempty"`
	Known     []KnownSig `json:"known,omitempty"` // recorded findings: reported once, never stop the search
}

type KnownSig struct {
	Property  string `json:"property"`
	Kind      string `json:"kind"`
	Signature string `json:"signature"`
}

type Replay struct {
	Plan     *engine.Plan `json:"plan"`
	Schedule []string     `json:"schedule"`
}

type RunViolation struct {
	Run       int              `json:"run"`
	ChunkFrom int              `json:"chunk_from"`
	RunSeed   uint64           `json:"run_seed"`
	Violation engine.Violation `json:"violation"`
	Plan      *engine.Plan     `json:"plan"`
	Schedule  []string         `json:"schedule"`
	Hash      string           `json:"hash"`
	Trace     []string         `json:"trace"`
	Known     bool             `json:"known,omitempty"`
}

type BatchResult struct {
	Kinds    []string `json:"kinds"` // property/kind of every violation found
	Hash     string   `json:"hash"`
	Schedule []string `json:"schedule"`
	Steps    int      `json:"steps"`
}

type Sample struct {
	RunSeed  uint64       `json:"run_seed"`
	Plan     *engine.Plan `json:"plan"`
	Schedule []string     `json:"schedule"`
	Trace    []string     `json:"trace"`
}

type Result struct {
	Profile    string            `json:"profile"`
	Runs       int               `json:"runs"`
	Steps      int               `json:"steps"`
	SimMs      int64             `json:"sim_ms"`
	WallS      float64           `json:"wall_s"`
	NonTrivial []string          `json:"nontrivial_hashes"`
	AllHashes  int               `json:"all_hashes"`
	States     []uint64          `json:"state_hashes"`
	Faults     map[string]int    `json:"faults"`
	Probes     map[string]int    `json:"probes"`
	Stuck      int               `json:"stuck"`
	Budget     int               `json:"budget_hit"`
	Violations []RunViolation    `json:"violations"`
	Samples    []Sample          `json:"samples"`
	Hashes     map[string]string `json:"hashes,omitempty"` // run index -> history hash (determinism test)
	Batch      []BatchResult     `json:"batch,omitempty"`
	Error      string            `json:"error,omitempty"`
	KnownHits  map[string]int    `json:"known_hits,omitempty"`
	Rule       string            `json:"rule,omitempty"`
	Expect     []string          `json:"expect_probes,omitempty"`
}

func runSeed(base uint64, idx int) uint64 {
	x := base*0x9E3779B97F4A7C15 + uint64(idx)*0xD1B54A32D192ED03 + 0x632BE59BD9B4E019
	x ^= x >> 29
	x *= 0xBF58476D1CE4E5B9
	x ^= x >> 32
	return x
}

func TestWorker(t *testing.T) {
	log.SetOutput(io.Discard)
	specPath := os.Getenv("VSIM_SPEC")
	if specPath == "" {
		t.Skip("no VSIM_SPEC")
	}
	raw, err := os.ReadFile(specPath)
	if err != nil {
		t.Fatal(err)
	}
	var spec Spec
	if err := json.Unmarshal(raw, &spec); err != nil {
		t.Fatal(err)
	}
	res := &Result{Profile: spec.Profile, Faults: map[string]int{}, Probes: map[string]int{}, Hashes: map[string]string{}, KnownHits: map[string]int{}}
	defer func() {
		b, _ := json.Marshal(res)
		_ = os.WriteFile(spec.Out, b, 0o644)
	}()
	prof := engine.Profiles[spec.Profile]
	if prof == nil {
		res.Error = "unknown profile " + spec.Profile
		return
	}
	rw := newRaceWatch()
	defer func() {
		if n := int(engine.LeakyBubbles.Load()); n > 0 {
			res.Probes["bubble-ended-with-blocked-goroutines"] += n
		}
		if rw != nil {
			res.Probes["race-reports-total"] += rw.Total
			res.Probes["race-reports-harness-noise"] += rw.Noise
		}
	}()
	res.Rule = prof.Rule
	res.Expect = prof.ExpectProbes
	start := time.Now()
	states := map[uint64]struct{}{}
	one := func(idx int, plan *engine.Plan, sched []string) {
		out := engine.RunInBubble(t, plan, sched, prof.Arm)
		if out == nil {
			res.Error = "run produced no outcome"
			return
		}
		viol := out.Violations
		for _, or := range prof.Oracles {
			viol = append(viol, or(out)...)
		}
		viol = append(viol, rw.poll()...)
		res.Runs++
		res.Steps += out.Hist.Steps
		res.SimMs += out.Hist.EndT
		for k, v := range out.Hist.FaultFired {
			res.Faults[k] += v
		}
		for k, v := range out.Hist.Probes {
			res.Probes[k] += v
		}
		for s := range out.Hist.States {
			h := fnv.New64a()
			h.Write([]byte(s))
			states[h.Sum64()] = struct{}{}
		}
		if len(out.Hist.Stuck) > 0 {
			res.Stuck++
		}
		if out.Hist.BudgetHit {
			res.Budget++
		}
		res.AllHashes++
		res.Hashes[fmt.Sprint(idx)] = out.Hash
		if prof.NonTrivial == nil || prof.NonTrivial(out) {
			res.NonTrivial = append(res.NonTrivial, out.Hash)
		}
		if len(res.Samples) < 2 && (prof.NonTrivial == nil || prof.NonTrivial(out)) || spec.KeepTrace {
			res.Samples = append(res.Samples, Sample{RunSeed: plan.Seed, Plan: plan, Schedule: out.Schedule, Trace: out.Hist.Trace(400)})
		}
		seen := map[string]bool{}
		for _, v := range viol {
			k := v.Property + "/" + v.Kind
			if seen[k] {
				continue
			}
			seen[k] = true
			known := false
			for _, ks := range spec.Known {
				if ks.Property == v.Property && ks.Kind == v.Kind && ks.Signature == v.Sig {
					known = true
				}
			}
			if known {
				res.KnownHits[k]++
				if res.KnownHits[k] > 1 {
					continue
				}
			}
			if len(res.Violations) < 40 {
				res.Violations = append(res.Violations, RunViolation{Run: idx, ChunkFrom: spec.From, RunSeed: plan.Seed, Violation: v, Plan: plan, Schedule: out.Schedule, Hash: out.Hash, Trace: out.Hist.Trace(600), Known: known})
			}
		}
	}
	if len(spec.Replays) > 0 {
		for _, rp := range spec.Replays {
			if engine.Poisoned.Load() {
				// an earlier candidate left tasks blocked for ever: this process is done, the
				// remaining candidates count as not reproducing
				res.Batch = append(res.Batch, BatchResult{})
				continue
			}
			out := engine.RunInBubble(t, rp.Plan, rp.Schedule, prof.Arm)
			br := BatchResult{}
			if out != nil {
				viol := out.Violations
				for _, or := range prof.Oracles {
					viol = append(viol, or(out)...)
				}
				viol = append(viol, rw.poll()...)
				for _, v := range viol {
					br.Kinds = append(br.Kinds, v.Property+"/"+v.Kind)
				}
				br.Hash = out.Hash
				br.Schedule = out.Schedule
				br.Steps = out.Hist.Steps
			}
			res.Batch = append(res.Batch, br)
		}
		res.WallS = time.Since(start).Seconds()
		return
	}
	if spec.Replay != nil {
		one(-1, spec.Replay.Plan, spec.Replay.Schedule)
		for i := 1; i < spec.Repeat && len(res.Violations) == 0 && !engine.Poisoned.Load(); i++ {
			one(-1, spec.Replay.Plan, spec.Replay.Schedule)
		}
		res.Probes["replay-repetitions"] = res.Runs
		res.WallS = time.Since(start).Seconds()
		return
	}
	for i := 0; i < spec.Count; i++ {
		if spec.MaxWallS > 0 && time.Since(start).Seconds() > spec.MaxWallS {
			break
		}
		idx := spec.From + i
		seed := runSeed(spec.Seed, idx)
		g := engine.NewGen(seed, spec.Tier)
		plan := prof.Gen(g)
		if spec.PlanOnly {
			res.Samples = append(res.Samples, Sample{RunSeed: plan.Seed, Plan: plan})
			continue
		}
		one(idx, plan, nil)
		if res.Error != "" || engine.Poisoned.Load() {
			break
		}
	}
	for s := range states {
		res.States = append(res.States, s)
	}
	res.WallS = time.Since(start).Seconds()
}
