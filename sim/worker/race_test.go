package worker

import (
	"fmt"
	"os"
	"regexp"
	"runtime"
	"sort"
	"strings"

	"verif/sim/engine"
)

// raceWatch follows the race detector's log file (GORACE=log_path=...) and turns
// new reports into violations. A report counts only if the innermost non-runtime
// frames of both accesses lie outside the harness (DESIGN.md 7.20).
type raceWatch struct {
	path   string
	offset int64
	seen   int
	Noise  int
	Total  int
}

func newRaceWatch() *raceWatch {
	p := os.Getenv("VSIM_RACE_LOG")
	if p == "" || !engine.RaceEnabled {
		return nil
	}
	return &raceWatch{path: fmt.Sprintf("%s.%d", p, os.Getpid())}
}

var frameRe = regexp.MustCompile(`(?m)^  (\S+)\(.*\)\n      (\S+):(\d+)`)

type access struct {
	fn   string
	file string
	line string
}

// innermost returns the innermost frame that is neither Go runtime nor standard
// library: the code (harness, pike or one of pike's dependencies) that made the access.
func innermost(block string) (access, bool) {
	goroot := runtime.GOROOT()
	for _, m := range frameRe.FindAllStringSubmatch(block, -1) {
		fn, file := m[1], m[2]
		if strings.HasPrefix(file, goroot+"/") || strings.Contains(file, "/src/runtime/") || strings.HasPrefix(fn, "runtime.") {
			continue
		}
		return access{fn, file, m[3]}, true
	}
	return access{}, false
}

func isHarness(a access) bool {
	if strings.Contains(a.file, "/verif/sim/") || strings.Contains(a.fn, "verif/sim/") {
		return true
	}
	// verif-tagged hook files inside the repository are harness code as well
	base := a.file[strings.LastIndexByte(a.file, '/')+1:]
	return strings.HasPrefix(base, "verif_") || strings.HasPrefix(base, "zz_verif_")
}

// poll returns the violations for reports that appeared since the last call.
func (w *raceWatch) poll() []engine.Violation {
	if w == nil {
		return nil
	}
	n := engine.RaceErrors()
	if n == w.seen {
		return nil
	}
	w.seen = n
	data, err := os.ReadFile(w.path)
	if err != nil || int64(len(data)) <= w.offset {
		return nil
	}
	fresh := string(data[w.offset:])
	w.offset = int64(len(data))
	var out []engine.Violation
	for _, rep := range strings.Split(fresh, "==================") {
		if !strings.Contains(rep, "WARNING: DATA RACE") {
			continue
		}
		w.Total++
		// the two accesses: "<Read|Write> at ... by goroutine N:" and "Previous <read|write> at ..."
		parts := regexp.MustCompile(`(?m)^(Read|Write|Previous read|Previous write|Atomic read|Atomic write|Previous atomic read|Previous atomic write) at `).Split(rep, -1)
		if len(parts) < 3 {
			continue
		}
		cut := func(s string) string {
			if i := strings.Index(s, "\n\n"); i >= 0 {
				return s[:i]
			}
			return s
		}
		a, okA := innermost(cut(parts[1]))
		b, okB := innermost(cut(parts[2]))
		if !okA || !okB || isHarness(a) || isHarness(b) {
			w.Noise++
			continue
		}
		fns := []string{shortFn(a.fn), shortFn(b.fn)}
		sort.Strings(fns)
		rep = strings.TrimSpace(rep)
		if len(rep) > 3500 {
			rep = rep[:3500] + "\n..."
		}
		out = append(out, engine.Violation{Property: "C20", Kind: "data-race", Sig: "unsynchronised conflicting accesses: " + fns[0] + " / " + fns[1],
			Detail: fmt.Sprintf("%s:%s vs %s:%s\n%s", a.file, a.line, b.file, b.line, rep)})
	}
	return out
}

func shortFn(fn string) string {
	fn = strings.TrimPrefix(fn, "github.com/vicanso/")
	return fn
}
