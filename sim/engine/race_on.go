//go:build race

package engine

import (
	"runtime"
	"unsafe"
)

const RaceEnabled = true

func raceDisable()                 { runtime.RaceDisable() }
func raceEnable()                  { runtime.RaceEnable() }
func raceRelease(p unsafe.Pointer) { runtime.RaceRelease(p) }
func raceAcquire(p unsafe.Pointer) { runtime.RaceAcquire(p) }
func raceErrors() int              { return runtime.RaceErrors() }

func RaceErrors() int { return runtime.RaceErrors() }
