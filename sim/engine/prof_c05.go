package engine

import (
	"fmt"
	"strconv"
	"strings"
)

// ---------------------------------------------------------------------------------
// C06 - key isolation

func init() {
	register(&Profile{
		Name:     "C06",
		Property: "C06",
		Gen:      func(g *Gen) *Plan { return swarm(g, genC06(g), 0.2, 0) },
		Oracles:  []func(o *Outcome) []Violation{respOracle("C06", "wrong-key", "wrong-body", "unattributable-response", "origin-asked-for-other-url"), livenessOracle("C06")},
		NonTrivial: func(o *Outcome) bool {
			return o.Hist.Probes["evictions"] > 0 && o.Hist.Probes["hits-checked"] > 0
		},
		Rule:         "seeded key sets built to be confusable (same path on two hosts, queries differing in one byte, prefix/suffix pairs, GET vs HEAD of one URL), forced into one or two shards in most runs, per-shard LRU limit 1-3 so entries are continually evicted and re-created, 20-45 requests of mixed concurrency with expiry; oracle: the self-identifying origin reply inside every response names exactly the requesting client's (method, Host, request-URI). very long URLs (~800 bytes) that differ only at their far end join the key sets, the cache is persisted in a third of the plans, the origin answers in any documented encoding. in a fifth of the plans a tenth of the clients disconnect at a scheduler-chosen step (fault client-disconnect). non-trivial = at least one eviction and one cache hit occurred; distinct = distinct history hash",
		ExpectProbes: []string{"evictions", "hits-checked", "head-and-get-same-url", "same-path-two-hosts"},
	})
	register(&Profile{
		Name:     "C05",
		Property: "C05",
		Gen:      func(g *Gen) *Plan { return swarm(g, genC05(g), 0.2, 0) },
		Oracles:  []func(o *Outcome) []Violation{respOracle("C05"), servedOracle("C05"), livenessOracle("C05")},
		NonTrivial: func(o *Outcome) bool {
			return o.Hist.Probes["hits-checked"] > 0
		},
		Rule:         "seeded plans: origin encodings {identity,gzip,br,lz4,zst,snz} x client Accept-Encoding lists x body classes (empty, 1B, threshold-1/threshold/threshold+1, 5KB, 64KB, incompressible, >10x compressible) x content types x statuses x per-run knobs (compress levels incl. out of range, min-length, filter, upstream Accept-Encoding override), delivered on every path the scheduler can create: fetching request, waiter, later hit with another Accept-Encoding, hit after eviction + reload from the simulated store, hit-for-pass, passed methods; oracle: decode-and-compare against the origin's bytes, Content-Encoding accepted, Content-Length, status, end-to-end headers. in a fifth of the plans a tenth of the clients disconnect at a scheduler-chosen step (fault client-disconnect). non-trivial = at least one cache hit was checked; distinct = distinct history hash",
		ExpectProbes: []string{"hits-checked", "path:waiter", "path:hit-after-reload", "path:hitForPass", "path:passed", "enc:lz4", "enc:zst", "enc:snz", "enc:gzip", "enc:br", "transcoded-for-client", "body:empty", "body:>10x"},
	})
}

func genC06(g *Gen) *Plan {
	size := pick(g, 8, 8, 16, 24)
	p := &Plan{Profile: "C06", Seed: g.Seed, Policy: g.policy(), ClockMenuMs: []int{300, 1000, 2000}, ClockWeight: pick(g, 0.0, 0.05, 0.1), MaxSteps: 3000}
	p.ShardMode = pick(g, "one", "one", "two", "")
	store := ""
	if g.p(0.35) {
		// persisted: an evicted key comes back from the record stored under its key
		store = storeURL
		p.InlineStore = true
	}
	p.Configs = []Config{baseConfig(size, "1s", store)}
	type k struct{ m, h, u string }
	long := "/long/" + strings.Repeat("segment-0123456789/", 40) // ~770 bytes
	pool := []k{
		{"GET", hostA, "/a"}, {"GET", hostB, "/a"}, {"HEAD", hostA, "/a"}, {"GET", hostA, "/a/"}, {"GET", hostA, "/ab"},
		{"GET", hostA, "/a?x=1"}, {"GET", hostA, "/a?x=2"}, {"GET", hostA, "/a?x=1&y=2"}, {"GET", hostA, "/a?"}, {"GET", hostA, "/A"},
		{"GET", hostA + ".", "/a"}, {"GET", hostA, "/a%20b"}, {"GET", hostA, "/a%2Fb"}, {"GET", hostA, "/a/b"}, {"HEAD", hostB, "/a"},
		{"GET", hostA, "//a"}, {"GET", hostA + ":80", "/a"},
		// very long URLs that differ only at their far end (or only in the query after it)
		{"GET", hostA, long + "?page=1"}, {"GET", hostA, long + "?page=2"}, {"GET", hostA, long + "x"}, {"HEAD", hostA, long + "?page=1"},
	}
	g.R.Shuffle(len(pool), func(i, j int) { pool[i], pool[j] = pool[j], pool[i] })
	keys := pool[:g.n(3, 9)]
	p.Scripts = map[string][]Reply{}
	for _, kk := range keys {
		var s []Reply
		for i := 0; i < 6; i++ {
			r := cacheable(g.n(1, 5), g.n(0, 120))
			// the origin may answer in any documented encoding: what pike decodes for one key must
			// not end up under another
			r.Enc = pick(g, "", "", "", "snz", "lz4", "zst", "gzip")
			s = append(s, r)
		}
		p.Scripts[kk.m+" "+kk.h+" "+kk.u] = s
	}
	p.Default = cacheable(3, 40)
	n := g.n(20, 45)
	for i := 0; i < n; i++ {
		kk := keys[g.R.IntN(len(keys))]
		op := reqOp(kk.m, kk.h, kk.u)
		op.Barrier = g.p(0.15)
		p.Ops = append(p.Ops, op)
		if g.p(0.1) {
			p.Ops = append(p.Ops, sleepOp(pick(g, 300, 1000, 2500), g.p(0.5)))
		}
	}
	return p
}

func genC05(g *Gen) *Plan {
	p := &Plan{Profile: "C05", Seed: g.Seed, Policy: g.policy(), ClockMenuMs: []int{300, 1000, 2000}, ClockWeight: pick(g, 0.0, 0.03, 0.08), MaxSteps: 3000}
	store := ""
	size := 1000
	if g.p(0.5) {
		store = storeURL
		size = pick(g, 8, 16, 1000)
		p.InlineStore = true
		p.ShardMode = pick(g, "one", "two", "")
	}
	cfg := baseConfig(size, "1s", store)
	minLen := pick(g, "", "", "1kb", "100", "300", "1")
	minBytes := map[string]int{"": 1024, "1kb": 1024, "100": 100, "300": 300, "1": 1}[minLen]
	cfg.Servers[0].CompressMinLength = minLen
	cfg.Servers[0].CompressContentTypeFilter = pick(g, "", "", "text|json", "image", "json")
	if g.p(0.6) {
		cfg.Compresses = []CompressCfg{{Name: "cp", Levels: map[string]uint{"gzip": uint(pick(g, 0, 1, 6, 9, 10, 11, 12)), "br": uint(pick(g, 0, 1, 6, 11, 12))}}}
		cfg.Servers[0].Compress = "cp"
	}
	if g.p(0.3) {
		cfg.Compresses = append(cfg.Compresses, CompressCfg{Name: "bestCompression", Levels: map[string]uint{"gzip": uint(pick(g, 1, 9)), "br": uint(pick(g, 1, 9, 11))}})
	}
	cfg.Upstreams[0].AcceptEncoding = pick(g, "", "", "gzip", "br", "lz4", "zst", "snz", "gzip, br")
	cfg.Locations[0].ProxyTimeout = pick(g, "", "", "30s")
	p.Configs = []Config{cfg}
	p.Scripts = map[string][]Reply{}
	p.Default = cacheable(3, 40)
	sizes := []int{0, 1, minBytes - 1, minBytes, minBytes + 1, 5000, 5000, 20000}
	if g.p(0.15) {
		sizes = append(sizes, 65536)
	}
	accepts := []string{"", "gzip", "br", "gzip, br", "br, gzip", "deflate", "gzip, deflate, br", "identity", "zstd", "deflate, gzip"}
	nkeys := g.n(2, 6)
	for i := 0; i < nkeys; i++ {
		method := pick(g, "GET", "GET", "GET", "GET", "HEAD", "POST")
		uri := fmt.Sprintf("/e%d", i)
		key := method + " " + hostA + " " + uri
		var s []Reply
		for j := 0; j < 5; j++ {
			sz := max(0, sizes[g.R.IntN(len(sizes))])
			r := Reply{Status: pick(g, 200, 200, 200, 404, 201), Size: sz, Class: pick(g, "text", "text", "bin", "rep"),
				Enc: pick(g, "", "", "gzip", "br", "lz4", "zst", "snz", "gzipm"), CType: pick(g, "text/plain", "application/json", "image/png", "text/html; charset=utf-8")}
			if g.p(0.75) {
				r.Header = [][2]string{{"Cache-Control", "max-age=" + strconv.Itoa(g.n(2, 8))}}
			} else if g.p(0.5) {
				r.Header = [][2]string{{"Cache-Control", "no-cache"}}
			}
			if g.p(0.3) {
				r.Header = append(r.Header, [2]string{"X-Multi", "a"}, [2]string{"X-Multi", "b"}, [2]string{"Vary", "Accept-Encoding"})
			}
			if g.p(0.12) {
				// a field whose (first) value is empty is still a field
				r.Header = append(r.Header, [2]string{"X-Empty", ""})
				if g.p(0.5) {
					r.Header = append(r.Header, [2]string{"X-Blank-First", ""}, [2]string{"X-Blank-First", "second"})
				}
			}
			if g.p(0.2) {
				r.ETag = fmt.Sprintf(`"v%d"`, g.n(1, 99))
			}
			if g.p(0.04) && r.Size > 1000 {
				// the connection breaks in the middle of the body: the client must not get a
				// complete-looking response, and nothing truncated may be stored
				r.Fault = "abort"
			}
			s = append(s, r)
		}
		p.Scripts[key] = s
		if method == "GET" && g.p(0.4) {
			// the same URL is also requested with HEAD (a separate entry)
			p.Scripts["HEAD "+hostA+" "+uri] = s
		}
		if method != "POST" && g.p(0.25) {
			// ... and the same path lives on a second site served by the same cache, with answers of its own
			var s2 []Reply
			for j := 0; j < 5; j++ {
				s2 = append(s2, Reply{Status: pick(g, 200, 203), Size: g.n(0, 3000), Class: "text", Enc: pick(g, "", "gzip", "br"), CType: "text/html; charset=utf-8",
					Header: [][2]string{{"Cache-Control", "max-age=" + strconv.Itoa(g.n(2, 8))}}})
			}
			p.Scripts[method+" "+hostB+" "+uri] = s2
		}
	}
	keys := sortedScriptKeys(p.Scripts)
	n := g.n(10, 30)
	for i := 0; i < n; i++ {
		key := keys[g.R.IntN(len(keys))]
		var m, h, u string
		fmt.Sscanf(key, "%s %s %s", &m, &h, &u)
		op := reqOp(m, h, u)
		if ae := accepts[g.R.IntN(len(accepts))]; ae != "" {
			op.Header = append(op.Header, [2]string{"Accept-Encoding", ae})
		}
		if m == "POST" {
			op.Body = "x=1"
		}
		op.Barrier = g.p(0.3)
		p.Ops = append(p.Ops, op)
		if g.p(0.1) {
			p.Ops = append(p.Ops, sleepOp(pick(g, 300, 1000, 2500), g.p(0.5)))
		}
	}
	return p
}

func sortedScriptKeys(m map[string][]Reply) []string {
	ks := make([]string, 0, len(m))
	for k := range m {
		ks = append(ks, k)
	}
	sortStrings(ks)
	return ks
}
