package engine

import (
	"fmt"
	"net/http"
	"net/url"
	"sort"
	"strconv"
	"strings"
)

// headers pike documents as not carried over from the origin (cloneHeaderAndIgnore)
// plus the hop-by-hop headers every reverse proxy strips.
var notCarried = map[string]bool{
	"Content-Encoding": true, "Content-Length": true, "Connection": true, "Date": true,
	"Keep-Alive": true, "Proxy-Authenticate": true, "Proxy-Authorization": true, "Te": true,
	"Trailer": true, "Transfer-Encoding": true, "Upgrade": true, "Proxy-Connection": true,
}

// headers the proxy itself may add / rewrite on the way to the client
var proxyOwned = map[string]bool{
	"X-Status": true, "Age": true, "Content-Length": true, "Content-Encoding": true,
}

func acceptList(ae string) []string {
	var out []string
	for _, p := range strings.Split(ae, ",") {
		p = strings.TrimSpace(p)
		if i := strings.IndexByte(p, ';'); i >= 0 {
			p = strings.TrimSpace(p[:i])
		}
		if p != "" {
			out = append(out, strings.ToLower(p))
		}
	}
	return out
}

func reqHeaderGet(h [][2]string, name string) string {
	for _, kv := range h {
		if strings.EqualFold(kv[0], name) {
			return kv[1]
		}
	}
	return ""
}

// locationRespHeaders: response headers every location of the run's configs may add
// (the union is allowed; which location served is C14/C15 business).
func allowedAddedHeaders(p *Plan) map[string][]string {
	m := map[string][]string{}
	for _, c := range p.Configs {
		for _, l := range c.Locations {
			for _, h := range l.RespHeaders {
				kv := strings.SplitN(h, ":", 2)
				if len(kv) == 2 {
					k := http.CanonicalHeaderKey(kv[0])
					m[k] = append(m[k], kv[1])
				}
			}
		}
	}
	return m
}

// respOracle checks every returned response against the origin reply it claims to
// carry (self-identifying X-Sim-Echo): key isolation, status, headers, body.
// Violations are attributed to prop, except key mix-ups which are always C06 when
// prop is C06 and otherwise reported under prop too (a wrong body is a wrong body).
func respOracle(prop string, only ...string) func(o *Outcome) []Violation {
	return func(o *Outcome) []Violation {
		all := respCheck(prop, o)
		if len(only) == 0 {
			return all
		}
		var out []Violation
		for _, v := range all {
			if contains(only, v.Kind) {
				out = append(out, v)
			}
		}
		return out
	}
}

func respCheck(prop string, o *Outcome) []Violation {
	{
		var out []Violation
		added := allowedAddedHeaders(o.Plan)
		plainURL := true // no configuration of the plan rewrites paths or adds query parameters
		for _, c := range o.Plan.Configs {
			for _, l := range c.Locations {
				if len(l.Rewrites) > 0 || len(l.QueryStrings) > 0 {
					plainURL = false
				}
			}
		}
		for _, v := range o.Views() {
			r := v.R
			if plainURL {
				// whatever the request became inside pike, the origin is asked for the URL (and the
				// Host and method) the client asked for
				for _, u := range v.OwnUps {
					cu, err := url.ParseRequestURI(r.URI)
					if err != nil || u.Call == nil {
						continue
					}
					o.Hist.Probes["origin-url-compared"]++
					if u.Call.Path != cu.EscapedPath() || u.Call.RawQuery != cu.RawQuery || u.Call.Method != r.Method {
						out = append(out, violation(prop, "origin-asked-for-other-url", "the origin was asked for another URL than the client's",
							"client op %d %s %s: upstream request #%d was %s %s?%s", r.Op, r.Method, r.URI, u.Serial, u.Call.Method, u.Call.Path, u.Call.RawQuery))
					}
				}
			}
			switch v.Kind {
			case "unattributed":
				out = append(out, violation(prop, "unattributable-response", "response carries no origin reply identity",
					"client op %d %s: status %d, headers [%s], %d body bytes cannot be attributed to any origin reply", r.Op, r.Key, r.Res.Status, hdrString(headerPairs(r.Res.Header)), len(r.Res.Body)))
				continue
			case "origin":
			default:
				continue
			}
			u := v.Up
			res := r.Res
			if u.Reply.Fault == "badenc" {
				continue // the origin's own body is not a valid stream of the announced encoding
			}
			respProbes(o, v)
			if v.EchoKey != r.Key || u.Key != r.Key {
				out = append(out, violation(prop, "wrong-key", "response obtained for another key",
					"client op %d requested %q but received origin reply #%d which was produced for %q", r.Op, r.Key, u.Serial, u.Key))
				continue
			}
			wantStatus := u.Call.status
			is304 := false
			if res.Status == 304 && wantStatus != 304 {
				// legal iff the client sent validators that match the reply's
				inm, ims := reqHeaderGet(r.ReqHeader, "If-None-Match"), reqHeaderGet(r.ReqHeader, "If-Modified-Since")
				et, lm := u.Call.header.Get("ETag"), u.Call.header.Get("Last-Modified")
				// (and the answer it stands for is a 2xx one: preconditions do not apply to others)
				if wantStatus/100 == 2 && ((inm != "" && et != "" && (inm == et || inm == "*")) || (inm == "" && ims != "" && lm != "")) {
					is304 = true
				} else {
					out = append(out, violation(prop, "wrong-status", "status differs from the origin's",
						"client op %d %s: got 304 but sent no validator matching a 2xx answer (origin reply #%d had status %d)", r.Op, r.Key, u.Serial, wantStatus))
					continue
				}
			} else if res.Status != wantStatus {
				out = append(out, violation(prop, "wrong-status", "status differs from the origin's",
					"client op %d %s: got status %d, origin reply #%d had %d", r.Op, r.Key, res.Status, u.Serial, wantStatus))
				continue
			}
			// body
			enc := res.Header.Get("Content-Encoding")
			if enc != "" {
				ok := false
				for _, a := range acceptList(reqHeaderGet(r.ReqHeader, "Accept-Encoding")) {
					if a == strings.ToLower(enc) {
						ok = true
					}
				}
				if !ok && !is304 {
					out = append(out, violation(prop, "encoding-not-accepted", "Content-Encoding the client did not accept",
						"client op %d %s: response Content-Encoding %q but Accept-Encoding was %q", r.Op, r.Key, enc, reqHeaderGet(r.ReqHeader, "Accept-Encoding")))
				}
			}
			if r.Method == "HEAD" || is304 || !bodyAllowed(r.Method, res.Status) {
				if len(res.Body) != 0 {
					out = append(out, violation(prop, "body-on-bodyless", "body bytes on a response that must not have one", "client op %d %s: %d bytes", r.Op, r.Key, len(res.Body)))
				}
			} else {
				if ok, why := bodyMatches(res, u); !ok {
					out = append(out, violation(prop, "wrong-body", "body differs from the origin's",
						"client op %d %s (x-status %s, enc %q): %s", r.Op, r.Key, v.XStatus, enc, why))
				}
				if cl := res.Header.Get("Content-Length"); cl != "" {
					if n, err := strconv.Atoi(cl); err != nil || n != len(res.Body) {
						out = append(out, violation(prop, "wrong-content-length", "Content-Length differs from the bytes sent",
							"client op %d %s: Content-Length %q, %d bytes sent", r.Op, r.Key, cl, len(res.Body)))
					}
				}
			}
			// headers: everything end-to-end from the origin arrives, nothing foreign is added
			if msg := compareHeaders(u.Call.header, res.Header, added, is304); msg != "" {
				out = append(out, violation(prop, "wrong-headers", "end-to-end headers altered",
					"client op %d %s (x-status %s) vs origin reply #%d: %s", r.Op, r.Key, v.XStatus, u.Serial, msg))
			}
		}
		return out
	}
}

func compareHeaders(origin, got http.Header, added map[string][]string, is304 bool) string {
	var problems []string
	keys := make([]string, 0, len(origin))
	for k := range origin {
		keys = append(keys, k)
	}
	sort.Strings(keys)
	for _, k := range keys {
		if notCarried[k] || proxyOwned[k] {
			continue
		}
		if is304 && k == "Content-Type" {
			continue
		}
		want := origin[k]
		have := got[k]
		// location-added values come after the origin's
		if len(have) < len(want) {
			problems = append(problems, fmt.Sprintf("%s: origin sent %q, client got %q", k, want, have))
			continue
		}
		for i := range want {
			if have[i] != want[i] {
				problems = append(problems, fmt.Sprintf("%s: origin sent %q, client got %q", k, want, have))
				break
			}
		}
		extra := have[len(want):]
		for _, x := range extra {
			if !contains(added[k], x) {
				problems = append(problems, fmt.Sprintf("%s: extra value %q", k, x))
			}
		}
	}
	gk := make([]string, 0, len(got))
	for k := range got {
		gk = append(gk, k)
	}
	sort.Strings(gk)
	for _, k := range gk {
		if _, ok := origin[k]; ok || proxyOwned[k] {
			continue
		}
		for _, x := range got[k] {
			if x == "" {
				continue
			}
			if !contains(added[k], x) {
				problems = append(problems, fmt.Sprintf("%s: %q was not sent by the origin nor configured", k, x))
			}
		}
	}
	return strings.Join(problems, "; ")
}

func contains(list []string, s string) bool {
	for _, x := range list {
		if x == s {
			return true
		}
	}
	return false
}

func respProbes(o *Outcome, v *View) {
	pr := o.Hist.Probes
	r, u := v.R, v.Up
	if v.XStatus == "hit" {
		pr["hits-checked"]++
		for _, s := range o.Hist.Stores {
			if s.Task == r.Task && s.Op == "get" && s.Err == "" && s.OutLen > 0 {
				pr["path:hit-after-reload"]++
				break
			}
		}
	}
	if r.ReleasedBy >= 0 {
		pr["path:waiter"]++
	}
	if v.XStatus == "hitForPass" || v.XStatus == "passed" || v.XStatus == "fetching" {
		pr["path:"+v.XStatus]++
	}
	if len(v.OwnUps) > 0 && u.Reply.Enc != "" {
		pr["enc:"+u.Reply.Enc]++
	}
	if r.Res.Header.Get("Content-Encoding") != wireEnc(u.Reply.Enc) {
		pr["transcoded-for-client"]++
	}
	if len(u.BodyRaw) == 0 {
		pr["body:empty"]++
	}
	if u.Reply.Class == "rep" && u.Reply.Size >= 5000 {
		pr["body:>10x"]++
	}
	if r.Method == "HEAD" {
		for _, r2 := range o.Hist.Reqs {
			if r2.Method == "GET" && r2.Host == r.Host && r2.URI == r.URI {
				pr["head-and-get-same-url"]++
				break
			}
		}
	}
	for _, r2 := range o.Hist.Reqs {
		if r2.Method == r.Method && r2.Host != r.Host && r2.URI == r.URI {
			pr["same-path-two-hosts"]++
			break
		}
	}
}
