package engine

import (
	"fmt"
	"math/rand/v2"
	"strconv"
)

// Profile = generator of plans + armed oracles for one property.
type Profile struct {
	Name     string
	Property string
	Gen      func(g *Gen) *Plan
	Oracles  []func(o *Outcome) []Violation
	Arm      func(e *Engine)
	// NonTrivial reports whether the run met the trigger condition of the property
	NonTrivial func(o *Outcome) bool
	Rule       string
	// ExpectProbes: rare-condition probes that should be hit in a thorough batch
	ExpectProbes []string
}

var Profiles = map[string]*Profile{}

func register(p *Profile) { Profiles[p.Name] = p }

// Gen is the seeded source of every plan choice.
type Gen struct {
	R    *rand.Rand
	Seed uint64
	Tier string
}

func NewGen(seed uint64, tier string) *Gen {
	return &Gen{R: rand.New(rand.NewPCG(seed, 0x9e4)), Seed: seed, Tier: tier}
}

func (g *Gen) n(lo, hi int) int { // inclusive
	if hi <= lo {
		return lo
	}
	return lo + g.R.IntN(hi-lo+1)
}
func (g *Gen) p(x float64) bool     { return g.R.Float64() < x }
func pick[T any](g *Gen, xs ...T) T { return xs[g.R.IntN(len(xs))] }

const (
	srvAddr   = ":3015"
	originA   = "10.0.0.1:7001"
	hostA     = "a.test"
	hostB     = "b.test"
	storeURL  = "badger:///proc/verif-sim/disk0" // a path that can never be created: if the simulated store is not registered the real badger open fails at once
	storeURL2 = "badger:///proc/verif-sim/disk1"
)

// baseConfig: one cache, one upstream with one server, one catch-all location, one server.
func baseConfig(size int, hfp string, store string) Config {
	return Config{
		Caches:    []CacheCfg{{Name: "c1", Size: size, HitForPass: hfp, Store: store}},
		Upstreams: []UpstreamCfg{{Name: "u1", Policy: "first", Servers: []UpstreamSrv{{Addr: "http://" + originA}}}},
		Locations: []LocationCfg{{Name: "l1", Upstream: "u1"}},
		Servers:   []ServerCfg{{Addr: srvAddr, Locations: []string{"l1"}, Cache: "c1"}},
	}
}

func reqOp(method, host, uri string, hdr ...[2]string) Op {
	return Op{Kind: OpReq, Addr: srvAddr, Method: method, Host: host, URI: uri, Header: hdr}
}

func sleepOp(ms int, barrier bool) Op { return Op{Kind: OpSleep, Ms: ms, Barrier: barrier} }

func cacheable(maxAge int, size int) Reply {
	cc := "max-age=" + strconv.Itoa(maxAge)
	return Reply{Status: 200, Header: [][2]string{{"Cache-Control", cc}}, Size: size, Class: "text"}
}

func cacheableS(maxAge int, size int) Reply {
	return Reply{Status: 200, Header: [][2]string{{"Cache-Control", "public, max-age=1, s-maxage=" + strconv.Itoa(maxAge)}}, Size: size, Class: "text"}
}

func uncacheable(g *Gen, size int) Reply {
	switch g.n(0, 2) {
	case 0:
		return Reply{Status: 200, Header: [][2]string{{"Cache-Control", "no-cache"}}, Size: size, Class: "text"}
	case 1:
		return Reply{Status: 200, Size: size, Class: "text"}
	}
	return Reply{Status: 404, Header: [][2]string{{"Cache-Control", "no-store"}}, Size: size, Class: "text"}
}

func (g *Gen) policy() string { return pick(g, "uniform", "uniform", "prio", "prio", "freeze") }

func (g *Gen) clockMenu() []int {
	return pick(g, []int{100, 400, 1000}, []int{300, 1000, 1500, 3000}, []int{1000, 2000, 5000}, []int{50, 950, 1000, 1050})
}

func hfpString(s int) string { return fmt.Sprintf("%ds", s) }

// ---------------------------------------------------------------------------------
// C01 / C02 style bursts

// genBursts builds epochs of concurrent bursts on a hot key plus traffic on other keys.
func genBursts(g *Gen, p *Plan, keys []string, epochs int, burstLo, burstHi int, gapMs func(epoch int) int) {
	for ep := 0; ep < epochs; ep++ {
		n := g.n(burstLo, burstHi)
		for i := 0; i < n; i++ {
			k := keys[0]
			if len(keys) > 1 && g.p(0.2) {
				k = keys[g.n(1, len(keys)-1)]
			}
			m := "GET"
			op := reqOp(m, hostA, k)
			if i == 0 && g.p(0.5) {
				op.Barrier = true
			}
			p.Ops = append(p.Ops, op)
			if g.p(0.15) {
				p.Ops = append(p.Ops, sleepOp(pick(g, 200, 700, 1000, 1300), false))
			}
		}
		if ep != epochs-1 {
			p.Ops = append(p.Ops, sleepOp(gapMs(ep), g.p(0.5)))
		}
	}
}

// swarm applies, after a profile's own generator, the disturbances every deployment meets and
// no property may depend on the absence of: clients that go away while their request is parked
// or in flight (pCancel: share of plans; a tenth of their untagged requests), and a store that
// fails, forgets or dawdles without corrupting anything (pStore: share of the plans that have a
// store and no fault plan of their own).
func swarm(g *Gen, p *Plan, pCancel, pStore float64) *Plan {
	if g.p(pCancel) {
		for i := range p.Ops {
			op := &p.Ops[i]
			if op.Kind == OpReq && (op.Tag == "" || op.Tag == "batch") && g.p(0.1) {
				op.Cancellable = true
			}
		}
	}
	hasStore := false
	for _, c := range p.Configs {
		for _, cc := range c.Caches {
			if cc.Store != "" {
				hasStore = true
			}
		}
	}
	if hasStore && len(p.StoreFaults) == 0 && g.p(pStore) {
		p.StoreFaults = storeFaults(g, 120, pick(g, 0.1, 0.3), "err", "notfound", "delay", "drop")
	}
	return p
}
