package engine

import "fmt"

// ---------------------------------------------------------------------------------
// C01 - single flight

func init() {
	register(&Profile{
		Name:     "C01",
		Property: "C01",
		Gen:      func(g *Gen) *Plan { return swarm(g, genC01(g), 0.25, 0.0) },
		Oracles:  []func(o *Outcome) []Violation{oracleC01},
		NonTrivial: func(o *Outcome) bool {
			return o.Hist.Probes["request-blocked-behind-fetch"] > 0
		},
		Rule: "seeded plans: 1-3 keys (one hot), 1-4 expiry/refetch epochs of 2-10 concurrent GETs, lifetimes 1-5s, canonical cacheable / uncacheable replies, clock actions; schedule policy uniform/prio/freeze. in a quarter of the plans a tenth of the clients disconnect at a scheduler-chosen step (fault client-disconnect). non-trivial = at least one request was observed natively blocked behind an in-flight fetch of its key; distinct = distinct history hash",
	})
}

func genC01(g *Gen) *Plan {
	hfp := g.n(1, 3)
	p := &Plan{Profile: "C01", Seed: g.Seed, Policy: g.policy(), ClockMenuMs: g.clockMenu(), ClockWeight: pick(g, 0.0, 0.05, 0.15, 0.4), MaxSteps: 900}
	size := pick(g, 1000, 1000, 1000, 100, 5000, 2000)
	p.Configs = []Config{baseConfig(size, hfpString(hfp), "")}
	reapply := g.p(0.2)
	nkeys := g.n(1, 3)
	keys := []string{}
	for i := 0; i < nkeys; i++ {
		keys = append(keys, fmt.Sprintf("/k%d", i))
	}
	epochs := g.n(1, 4)
	p.Scripts = map[string][]Reply{}
	lifetimes := []int{}
	for _, k := range keys {
		var s []Reply
		for i := 0; i < epochs+3; i++ {
			T := g.n(1, 5)
			if k == keys[0] {
				lifetimes = append(lifetimes, T)
			}
			if g.p(0.8) {
				if g.p(0.3) {
					s = append(s, cacheableS(T, g.n(10, 300)))
				} else {
					s = append(s, cacheable(T, g.n(10, 300)))
				}
			} else {
				s = append(s, uncacheable(g, g.n(10, 300)))
			}
		}
		p.Scripts["GET "+hostA+" "+k] = s
	}
	p.Default = cacheable(2, 50)
	genBursts(g, p, keys, epochs, 2, 10, func(ep int) int {
		T := lifetimes[ep%len(lifetimes)]
		return pick(g, T*1000-500, T*1000, T*1000+500, T*1000+1000, T*1000+1500, (T+hfp)*1000+1100)
	})
	if reapply && g.p(0.5) {
		// (the configuration names a second cache after the one in use)
		p.Configs[0].Caches = append(p.Configs[0].Caches, CacheCfg{Name: "cother", Size: 100, HitForPass: "1s"})
	}
	if reapply {
		// the unchanged configuration is applied again while requests are in flight (an update
		// that touched something else): the surviving cache keeps its entries and its fetches
		ops := p.Ops
		p.Ops = nil
		for i, op := range ops {
			p.Ops = append(p.Ops, op)
			if op.Kind == OpReq && g.p(3.0/float64(len(ops)+1)) && i < len(ops)-1 {
				p.Ops = append(p.Ops, Op{Kind: OpReload, Config: 0})
			}
		}
	}
	return p
}

// oracleC01 implements DESIGN.md 7.1.
func oracleC01(o *Outcome) []Violation {
	var out []Violation
	cfg := &o.Plan.Configs[0]
	views := o.Views()
	byKey := upsByKey(o)
	for _, key := range sortedUpKeys(byKey) {
		ups := byKey[key]
		if len(ups) == 0 {
			continue
		}
		c0 := o.Hist.Reqs[ups[0].Req]
		if c0.Method != "GET" && c0.Method != "HEAD" {
			continue
		}
		hfp := hfpSeconds(cfg, cacheOf(cfg, c0.Addr))
		if o.Plan.purges(key) {
			continue // a purged key may legitimately be fetched again at any time (stated exception)
		}
		for i, u1 := range ups {
			if !surelyFetcher(o, u1, hfp) {
				continue
			}
			end1 := u1.EndSeq
			if end1 == 0 {
				end1 = 1 << 60
			}
			for j, u2 := range ups {
				if i == j || u2.Task == u1.Task {
					continue
				}
				c2 := o.Hist.Reqs[u2.Req]
				// (1) overlap while the key's cacheability is unknown
				if c2.InvokeSeq > u1.ArriveSeq && u2.ArriveSeq < end1 {
					out = append(out, violation("C01", "overlap-unknown", "second upstream request while a fetch is in flight",
						"key %q: upstream request #%d (client op %d, invoked seq %d) arrived at seq %d while fetch #%d (arrived seq %d, ended seq %d) was in flight and no hit-for-pass marker could be in force",
						key, u2.Serial, c2.Op, c2.InvokeSeq, u2.ArriveSeq, u1.Serial, u1.ArriveSeq, u1.EndSeq))
				}
				// (2) extra fetch inside the lifetime of a cacheable fetch
				if u1.Shareable && u1.Answered && fetcherStored(o, u1) && c2.InvokeSeq > u1.ArriveSeq && u2.ArriveSeq > u1.ReplySeq &&
					secFloor(u2.ArriveT) <= secFloor(u1.ReplyT)+int64(u1.Lifetime) && c2.ReleasedBy == -1 {
					out = append(out, violation("C01", "extra-fetch-in-lifetime", "upstream contacted inside the freshness lifetime",
						"key %q: upstream request #%d (client op %d) arrived at t=%dms although fetch #%d (replied t=%dms) was cacheable for %ds",
						key, u2.Serial, c2.Op, u2.ArriveT, u1.Serial, u1.ReplyT, u1.Lifetime))
				}
			}
		}
	}
	// (2b) whatever markers may be in force: two requests that both say they took the fetching
	// role (label "fetching") never have their upstream requests in flight at the same time
	for _, key := range sortedUpKeys(byKey) {
		ups := byKey[key]
		if o.Plan.purges(key) || cfg.Caches[0].Size < 1000 {
			continue // purge / eviction replace the entry: a new fetcher beside the old one is the stated exception
		}
		byReqView := map[*ReqRec]*View{}
		for _, v := range views {
			byReqView[v.R] = v
		}
		for i, u1 := range ups {
			for _, u2 := range ups[i+1:] {
				if u1.Req < 0 || u2.Req < 0 || u1.Task == u2.Task {
					continue
				}
				v1, v2 := byReqView[o.Hist.Reqs[u1.Req]], byReqView[o.Hist.Reqs[u2.Req]]
				if v1 == nil || v2 == nil || v1.XStatus != "fetching" || v2.XStatus != "fetching" || o.Hist.Reqs[u1.Req].Addr != o.Hist.Reqs[u2.Req].Addr {
					continue
				}
				e1 := u1.EndSeq
				if e1 == 0 {
					e1 = 1 << 60
				}
				if u2.ArriveSeq > u1.ArriveSeq && u2.ArriveSeq < e1 {
					o.Hist.Probes["two-fetching-labels-compared"]++
					out = append(out, violation("C01", "two-fetchers-in-flight", "two requests holding the fetching role for one key at the same time",
						"key %q: upstream request #%d (client op %d, label fetching) arrived at seq %d while #%d (client op %d, label fetching, seq %d..%d) was in flight", key, u2.Serial, o.Hist.Reqs[u2.Req].Op, u2.ArriveSeq, u1.Serial, o.Hist.Reqs[u1.Req].Op, u1.ArriveSeq, u1.EndSeq))
				}
			}
		}
	}
	// (3) a request that was coalesced behind a fetch that turned out cacheable is
	// answered from that fetch and never contacts the upstream itself
	for _, v := range views {
		if v.R.ReleasedBy < 0 {
			continue
		}
		f := o.reqOfTask(v.R.ReleasedBy)
		if f == nil || f.Key != v.R.Key || len(f.Ups) != 1 || o.Plan.purges(v.R.Key) {
			continue
		}
		u := o.Hist.Ups[f.Ups[0]]
		if !u.Shareable || !u.Answered || u.Verdict.Ambiguous || !fetcherStored(o, u) {
			continue
		}
		if len(v.R.Ups) > 0 {
			u2 := o.Hist.Ups[v.R.Ups[0]]
			out = append(out, violation("C01", "waiter-went-upstream", "waiter of a cacheable fetch contacted the upstream",
				"key %q: client op %d was released by the fetcher of #%d (cacheable %ds, replied t=%dms) but then sent upstream request #%d at t=%dms",
				v.R.Key, v.R.Op, u.Serial, u.Lifetime, u.ReplyT, u2.Serial, u2.ArriveT))
			continue
		}
		if v.Kind == "origin" && v.Serial != u.Serial {
			out = append(out, violation("C01", "waiter-other-reply", "waiter answered from a different reply than the fetch it waited for",
				"key %q: client op %d was released by the fetcher of #%d but its response is reply #%d", v.R.Key, v.R.Op, u.Serial, v.Serial))
		}
		if v.Kind == "error" || v.Kind == "unattributed" {
			out = append(out, violation("C01", "waiter-not-served", "waiter of a cacheable fetch not answered from it",
				"key %q: client op %d was released by the fetcher of cacheable fetch #%d but got status %d (%s)", v.R.Key, v.R.Op, u.Serial, v.R.Res.Status, v.Kind))
		}
	}
	return out
}

// fetcherStored: the requester of u returned a normal (non error) response, i.e. the
// fetch completed inside pike as well (a decode error after a good reply leaves the
// key in hit-for-pass, which is not what this clause is about).
func fetcherStored(o *Outcome, u *UpRec) bool {
	c := o.Hist.Reqs[u.Req]
	if c.Res == nil || c.ReturnSeq < 0 || c.Res.Aborted || c.Res.Refused {
		return false
	}
	if l := c.Res.Header.Get("X-Status"); l == "hitForPass" || l == "passed" {
		// it passed under a marker (left by an earlier uncacheable fetch or by a fetcher that gave
		// up before reaching the origin): nothing is stored by such a request
		return false
	}
	return c.Res.Status == u.Call.status && c.Res.Header.Get("X-Sim-Echo") != ""
}

func (p *Plan) purges(key string) bool {
	for _, op := range p.Ops {
		if op.Kind == OpPurge && op.Key == key {
			return true
		}
	}
	return false
}
