package engine

import (
	"bytes"
	"fmt"
	"sort"
	"strconv"
	"strings"
	"time"
)

// View is a client request with its response attributed to an origin reply.
type View struct {
	R       *ReqRec
	Kind    string // pending | dead | refused | aborted | error | origin | unattributed
	Serial  int
	EchoKey string
	Up      *UpRec // the origin reply the response claims to come from
	XStatus string
	Age     int // -1 absent / unparsable
	OwnUps  []*UpRec
}

func secFloor(ms int64) int64 { return ms / 1000 }

func (o *Outcome) upBySerial(s int) *UpRec {
	if s >= 1 && s <= len(o.Hist.Ups) {
		return o.Hist.Ups[s-1]
	}
	return nil
}

func (o *Outcome) Views() []*View {
	var out []*View
	for _, r := range o.Hist.Reqs {
		v := &View{R: r, Age: -1}
		for _, ui := range r.Ups {
			v.OwnUps = append(v.OwnUps, o.Hist.Ups[ui])
		}
		switch {
		case r.Cancelled:
			// the client went away: whatever it would have received is not observed
			v.Kind = "cancelled"
			if r.Res == nil || r.ReturnSeq < 0 {
				v.Kind = "pending"
			}
		case r.Dead:
			v.Kind = "dead"
		case r.Res == nil || r.ReturnSeq < 0:
			v.Kind = "pending"
		case r.Res.Refused:
			v.Kind = "refused"
		case r.Res.Aborted:
			v.Kind = "aborted"
		default:
			h := r.Res.Header
			v.XStatus = h.Get("X-Status")
			if a := h.Get("Age"); a != "" {
				if n, err := strconv.Atoi(a); err == nil {
					v.Age = n
				}
			}
			echo := h.Get("X-Sim-Echo")
			if echo == "" {
				if r.Res.Status >= 400 {
					v.Kind = "error"
				} else {
					v.Kind = "unattributed"
				}
			} else {
				v.Kind = "unattributed"
				if i := strings.IndexByte(echo, '|'); i > 0 {
					if n, err := strconv.Atoi(echo[:i]); err == nil {
						if u := o.upBySerial(n); u != nil {
							v.Kind = "origin"
							if u.Reply.Fault == "badenc" && r.Res.Status >= 500 {
								// pike's own error page built on top of the (undecodable) reply's headers
								v.Kind = "error"
							}
							v.Serial = n
							v.EchoKey = echo[i+1:]
							v.Up = u
						}
					}
				}
			}
		}
		out = append(out, v)
	}
	return out
}

// hfpSeconds: the hit-for-pass period of the cache used by a request, as configured.
func hfpSeconds(cfg *Config, cacheName string) int {
	for _, c := range cfg.Caches {
		if c.Name == cacheName {
			d, _ := time.ParseDuration(c.HitForPass)
			s := int(d.Seconds())
			if s <= 0 {
				return 300
			}
			return s
		}
	}
	return 300
}

// upsByKey groups upstream requests of GET/HEAD client keys by key, in arrival order.
func upsByKey(o *Outcome) map[string][]*UpRec {
	m := map[string][]*UpRec{}
	for _, u := range o.Hist.Ups {
		if u.Req < 0 {
			continue
		}
		m[u.Key] = append(m[u.Key], u)
	}
	return m
}

func sortedUpKeys(m map[string][]*UpRec) []string {
	ks := make([]string, 0, len(m))
	for k := range m {
		ks = append(ks, k)
	}
	sort.Strings(ks)
	return ks
}

// uncacheableOutcome: this upstream exchange certainly did not make the key a hit
// and (if its requester was the fetcher) ended in a hit-for-pass marker.
func upFailedOrUncacheable(u *UpRec) bool {
	return !u.Shareable
}

// possibleMarker reports whether a hit-for-pass marker may have been in force at
// some moment in [fromT, toT] for key (lenient: any doubt -> true).
func possibleMarker(o *Outcome, key string, before *UpRec, fromT int64, hfp int) bool {
	for _, u0 := range o.Hist.Ups {
		if u0.Key != key || u0 == before || u0.Req < 0 {
			continue
		}
		if u0.ArriveSeq >= before.ArriveSeq {
			continue
		}
		if u0.Shareable && !u0.Verdict.Ambiguous && u0.Answered && fetcherStored(o, u0) {
			// a cacheable outcome of a fetcher leaves no marker; but if its requester
			// was itself a passer nothing changes either. no marker from this one.
			continue
		}
		// marker set somewhere in [end(u0), return(client(u0))]; in force while
		// now <= set + hfp (whole seconds)
		c0 := o.Hist.Reqs[u0.Req]
		latestSet := int64(1) << 60
		if c0.ReturnSeq >= 0 {
			latestSet = c0.ReturnT
		}
		if secFloor(fromT) <= secFloor(latestSet)+int64(hfp) {
			return true
		}
	}
	for _, r := range o.Hist.Reqs {
		if r.Key != key || len(r.Ups) > 0 || r.InvokeSeq >= before.ArriveSeq {
			continue
		}
		// a request that took the fetching role and failed before reaching the origin
		// (no location / no healthy upstream) leaves a marker as well
		if endedFetchWithoutOrigin(r) {
			return true
		}
	}
	return false
}

// endedFetchWithoutOrigin: a request without an upstream contact of its own that may have
// held the fetching role and given it up: it never returned, panicked, was answered by pike
// itself with a 5xx (no location / no healthy upstream), or its client went away (pike
// answers 400). Every such end leaves a hit-for-pass marker.
func endedFetchWithoutOrigin(r *ReqRec) bool {
	if r.Res == nil || r.Res.Aborted {
		return true
	}
	if r.Res.Header.Get("X-Sim-Echo") != "" {
		return false
	}
	return r.Res.Status >= 500 || r.Cancelled
}

// surelyFetcher: the requester of u found the key in unknown state and took the
// fetching role (as opposed to passing through under a hit-for-pass marker).
func surelyFetcher(o *Outcome, u *UpRec, hfp int) bool {
	if u.Req < 0 {
		return false
	}
	c := o.Hist.Reqs[u.Req]
	if c.Method != "GET" && c.Method != "HEAD" {
		return false
	}
	if c.ReleasedBy != -1 {
		return false // it was a waiter released to go upstream itself
	}
	return !possibleMarker(o, u.Key, u, c.InvokeT, hfp)
}

func cacheOf(cfg *Config, addr string) string {
	for _, s := range cfg.Servers {
		if s.Addr == addr {
			return s.Cache
		}
	}
	return ""
}

func violation(prop, kind, sig, format string, args ...interface{}) Violation {
	return Violation{Property: prop, Kind: kind, Sig: sig, Detail: fmt.Sprintf(format, args...)}
}

// bodyMatches: the response body, decoded per its Content-Encoding, equals the
// identity body of the origin reply.
func bodyMatches(res *ClientResult, u *UpRec) (bool, string) {
	enc := res.Header.Get("Content-Encoding")
	dec, err := decodeBody(enc, res.Body)
	if err != nil {
		return false, fmt.Sprintf("body does not decode as %q: %v", enc, err)
	}
	if !bytes.Equal(dec, u.BodyRaw) {
		return false, fmt.Sprintf("decoded body (%dB) differs from origin reply #%d (%dB)", len(dec), u.Serial, len(u.BodyRaw))
	}
	return true, ""
}

func (o *Outcome) reqOfTask(task int) *ReqRec {
	for _, r := range o.Hist.Reqs {
		if r.Task == task {
			return r
		}
	}
	return nil
}

func sortStrings(s []string) { sort.Strings(s) }
