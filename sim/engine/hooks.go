package engine

import (
	pikecache "github.com/vicanso/pike/cache"
	pikecompress "github.com/vicanso/pike/compress"
	pikelocation "github.com/vicanso/pike/location"
	pikeserver "github.com/vicanso/pike/server"
	pikestore "github.com/vicanso/pike/store"
	pikeupstream "github.com/vicanso/pike/upstream"
)

// The VerifYield / VerifGo variables exist only in the build overlay produced by
// /verif/sim/instrument (see DESIGN.md 3.3); this package is always built with it.
func installYieldHooks() {
	pikecache.VerifYield = yieldHook
	pikeserver.VerifYield = yieldHook
	pikelocation.VerifYield = yieldHook
	pikeupstream.VerifYield = yieldHook
	pikecompress.VerifYield = yieldHook
	pikestore.VerifYield = yieldHook
	pikeserver.VerifGo = goHook
	// (none of these packages starts a goroutine today; one that an edit adds is scheduled
	// like the server's)
	pikecache.VerifGo = goHook
	pikecompress.VerifGo = goHook
	pikelocation.VerifGo = goHook
	pikestore.VerifGo = goHook
}

func resetAll(cfg *Config) {
	pikecompress.Reset(toCompress(cfg))
	pikecache.ResetDispatchers(toCaches(cfg))
	pikeupstream.ResetWithOnStats(toUpstreams(cfg), func(pikeupstream.StatusInfo) {})
	pikelocation.Reset(toLocations(cfg))
	pikeserver.Reset(toServers(cfg))
}

// resetCompressDefaults gives the process-global compress registry the state of a
// fresh process (pike never deletes profiles; the built-in bestCompression profile
// may have been overridden by an earlier configuration).
func resetCompressDefaults() {
	pikecompress.VerifFreshRegistry()
}
