package engine

import (
	"context"
	"fmt"
	"runtime"
	"unsafe"
)

// Yield kinds (same numbering as instrument).
const (
	KPlain  = 0
	KLock   = 1
	KRLock  = 2
	KRecv   = 3
	KSend   = 4
	KSelect = 5
	KWait   = 6
	KWoken  = 7
)

// task states
const (
	tsNew      = 0 // created, goroutine not yet at its first park
	tsParked   = 1 // parked at a yield, waiting for the controller
	tsRunning  = 2 // released by the controller (if still so after Wait: natively blocked)
	tsUpstream = 3 // parked inside the simulated origin
	tsStore    = 4 // parked inside the simulated store
	tsDone     = 5
	tsDead     = 6 // abandoned by a crash: never resumed
)

var stateNames = [...]string{"new", "parked", "running", "in-upstream", "in-store", "done", "dead"}

const (
	opRun  = 1
	opPoll = 2
)

// Task is one client request, purge, reload or a goroutine pike started itself.
// The fields below `slot` are written by the task's own goroutine while the
// controller is inside synctest.Wait, and read by the controller afterwards.
type Task struct {
	ID     int
	Name   string
	Kind   string
	OpIdx  int
	Parent int
	e      *Engine
	resume chan int
	fn     func(t *Task)
	token  byte // address for the controller->task race edge

	// slot
	goid     uint64
	state    int
	kind     int
	site     string
	try      func() bool
	undo     func()
	probeOK  bool
	probed   bool
	up       *UpCall
	stc      *StoreCall
	res      *ClientResult
	panicVal string
	panicked bool
	noYield  int // >0: atomic section, plain yields do not park
	children int
	timedOut bool
	lockID   uintptr // identity of the mutex a lock / rlock yield waits for (receiver of its TryLock)

	// controller side
	announced       bool // a blocked writer whose Lock call has been "made": new readers of its RWMutex wait
	weight          float64
	seenState       int
	blocked         bool // natively blocked (running after Wait)
	wasBlocked      bool
	sendBlocked     bool
	prevSendBlocked bool
	atRecv          bool
	cancel          func()
	cancelled       bool
	started         bool
	startSeq        int
	lastSite        string
	rec             *ReqRec
}

func goid() uint64 {
	var buf [64]byte
	n := runtime.Stack(buf[:], false)
	// "goroutine 123 ["
	var id uint64
	for i := len("goroutine "); i < n; i++ {
		c := buf[i]
		if c < '0' || c > '9' {
			break
		}
		id = id*10 + uint64(c-'0')
	}
	return id
}

// wait for the controller. Returns when released with opRun; answers polls.
//
//go:norace
func (t *Task) waitResume() {
	for {
		raceDisable()
		op := <-t.resume
		raceEnable()
		raceAcquire(unsafe.Pointer(&t.token))
		if op == opPoll {
			ok := true
			if t.try != nil {
				raceDisable()
				ok = t.try()
				if ok {
					t.undo()
				}
				raceEnable()
			}
			t.probeOK = ok
			t.probed = true
			continue
		}
		t.state = tsRunning
		return
	}
}

//go:norace
func (t *Task) parkYield(kind int, try func() bool, undo func(), site string) {
	t.kind = kind
	t.site = site
	t.try = try
	t.undo = undo
	t.lockID = 0
	if kind == KLock || kind == KRLock {
		t.lockID = recvOf(try)
	}
	t.probed = false
	t.state = tsParked
	t.waitResume()
	t.try = nil
	t.undo = nil
}

// parkCall parks inside a simulated component. If ctx ends first the task moves
// itself to an ordinary parked state (so that it never runs beside another task)
// and reports false once released.
//
//go:norace
func (t *Task) parkCall(state int, site string, ctx context.Context) bool {
	t.kind = KPlain
	t.site = site
	t.try = nil
	t.undo = nil
	t.state = state
	if ctx == nil || ctx.Done() == nil {
		t.waitResume()
		return true
	}
	for {
		raceDisable()
		var op int
		timed := false
		select {
		case op = <-t.resume:
		case <-ctx.Done():
			timed = true
		}
		raceEnable()
		if timed {
			t.timedOut = true
			t.site = site + ":ctx-done"
			t.kind = KWoken
			t.state = tsParked
			t.waitResume()
			return false
		}
		raceAcquire(unsafe.Pointer(&t.token))
		if op == opPoll {
			t.probeOK = true
			t.probed = true
			continue
		}
		t.state = tsRunning
		return true
	}
}

//go:norace
func (t *Task) finish(r interface{}) {
	if r != nil {
		t.panicked = true
		t.panicVal = fmt.Sprint(r)
	}
	t.state = tsDone
}

//go:norace
func (t *Task) getState() int { return t.state }

//go:norace
func (t *Task) getSite() (int, string) { return t.kind, t.site }

//go:norace
func (t *Task) getProbe() (bool, bool) { return t.probed, t.probeOK }

// recvOf: the receiver bound into a method value (X.TryLock): the second word of its closure.
// Only compared for equality, never dereferenced.
func recvOf(f func() bool) uintptr {
	if f == nil {
		return 0
	}
	p := *(**[2]uintptr)(unsafe.Pointer(&f))
	return p[1]
}

//go:norace
func (t *Task) getLock() (int, uintptr) { return t.kind, t.lockID }

//go:norace
func (t *Task) isLockWait() bool {
	return t.state == tsParked && (t.kind == KLock || t.kind == KRLock)
}

func (t *Task) String() string {
	k, s := t.getSite()
	return fmt.Sprintf("%s[%s %d@%s]", t.Name, stateNames[t.getState()], k, s)
}
