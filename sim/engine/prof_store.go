package engine

import (
	"fmt"
	"strconv"
	"strings"
)

// ---------------------------------------------------------------------------------
// C10 - store failures degrade to memory-only caching

func init() {
	register(&Profile{
		Name:     "C10",
		Property: "C10",
		Gen:      genC10,
		Oracles: []func(o *Outcome) []Violation{livenessOracle("C10"), servedOracleStrict("C10"), respOracle("C10"), relabelOnly("C10", oracleC04, "stale-hit", "wrong-age", "age-exceeds-lifetime"),
			func(o *Outcome) []Violation {
				if o.Plan.Configs[0].Caches[0].Size >= 1000 {
					return relabel("C10", oracleC01)(o)
				}
				return nil
			}, oracleC10Purge, oracleC10SlowStore},
		NonTrivial: func(o *Outcome) bool {
			n := 0
			for k, v := range o.Hist.FaultFired {
				if len(k) > 6 && k[:6] == "store:" {
					n += v
				}
			}
			return n > 0
		},
		Rule:         "seeded plans with a simulated store behind the cache: per store call a drawn outcome - Get in {ok, not-found although present, error, delayed with the entry lock held, truncated, garbage, bit flip}, Set in {ok, error, delayed, silently dropped}, Delete in {ok, error, delayed} (about one call in three is faulty); traffic: concurrent bursts with waiters, expiry, purges, LRU either large (memory keeps serving: single-flight/retention oracle armed) or tiny (evict + reload through the faulty store). All liveness, freshness and response-integrity oracles stay armed unchanged; a store fault never excuses a client error, a wrong body, a stale hit or a stuck request. non-trivial = at least one store fault fired; distinct = distinct history hash",
		ExpectProbes: []string{"hits-checked", "path:hit-after-reload", "path:waiter", "fault-with-waiters-present"},
	})
	register(&Profile{
		Name:     "C09",
		Property: "C09",
		Gen:      genC09,
		Oracles: []func(o *Outcome) []Violation{oracleC09, livenessOracle("C09"),
			// the undamaged reloads of the same histories: a decoded entry behaves like the encoded one
			// (not under bit flips: a flipped bit in a timestamp or a body is a well-formed record)
			func(o *Outcome) []Violation {
				if strings.Contains(o.Plan.Notes, "mode=flip") {
					return nil
				}
				return append(relabelOnly("C09", oracleC08, "age-restarted", "stale-after-reload")(o), respOracle("C09")(o)...)
			}},
		NonTrivial: func(o *Outcome) bool {
			return o.Hist.FaultFired["store:cut-effective"]+o.Hist.FaultFired["store:flip"]+o.Hist.FaultFired["store:garbage"] > 0
		},
		Rule:         "records captured from the run itself (hit records with identity / gzip+br variants, multi-valued and non-ASCII headers, empty and large bodies; hit-for-pass records; one record in eight carries a header value of 70-110 KB) are first read back undamaged after an eviction (they must come back as the stored response - a marker as a marker - and answering a client that takes the stored encoding must not allocate more than 64 x record length + 1 MiB; one record in twelve stands for a 3 MB body that compresses several hundred times) and then fed back through the real lookup path after the entry was evicted: mode cut = the store returns the record cut at offset k for every k of a contiguous window (thorough tier: every offset 0..len-1 of the record, i.e. exhaustive per record), mode flip = seeded single bit flips, mode garbage = random bytes of the record's length, mode zerotail = the last 1..64 bytes read back as zeros (the other shape of a torn write). Oracle: no panic, no stuck request, bytes allocated during the request <= 64 x record length + 32 MiB + 24 x the bytes it fetched from the origin (the allowance covers the fetch after the miss refilling the pooled gzip / brotli writers); every truncated record is a miss (the request reaches the origin and is answered correctly) and the key neither becomes a permanent error nor an immortal entry (final probe after the lifetime reaches the origin). The algebraic Bytes/FromBytes round trip over arbitrary structures is input testing and not claimed. non-trivial = at least one effective corruption was delivered; distinct = distinct history hash",
		ExpectProbes: []string{"cut-record-checked", "flip-record-checked", "garbage-record-checked", "zerotail-record-checked", "final-probe-ok", "record-with-compressed-variants", "hit-for-pass-record", "clean-reload-checked", "clean-reload-of-header-block>64KiB", "clean-reload-of-marker-checked", "clean-reload-allocation-checked", "clean-reload-of-body>1MiB"},
	})
	register(&Profile{
		Name:     "C08",
		Property: "C08",
		Gen:      func(g *Gen) *Plan { return swarm(g, genC08(g), 0.2, 0) },
		Oracles: []func(o *Outcome) []Violation{oracleC08, livenessOracle("C08"), servedOracleStrict("C08"), respOracle("C08"),
			// hit-for-pass markers are persisted under the same rules: never in force beyond their original period
			relabelOnly("C08", oracleC07, "marker-outlives-period")},
		NonTrivial: func(o *Outcome) bool {
			return o.Hist.Probes["served-from-store-after-restart"]+o.Hist.Probes["path:hit-after-reload"] > 0
		},
		Rule:         "seeded histories on a simulated disk (durable map + acknowledged-but-unsynced writes): cold fetches, hits, hit-for-pass, purges and concurrent writes of 3-8 keys with an LRU smaller than the working set (evict + reload), interrupted by kill (a controller action taken at an arbitrary scheduler step: every task is abandoned where it stands, each unsynced write is independently kept, lost or - if enabled - torn at a random offset) or graceful stop, followed by a restart on the same disk; store TTL enforcement exact / late / never. Oracle: whatever is served without upstream contact after a restart or reload is an unaltered reply of the origin for that key, inside its original lifetime, with Age continuing from the original fetch; every request after the restart completes and is served normally. badger itself is never run. in a fifth of the plans a tenth of the clients disconnect at a scheduler-chosen step (fault client-disconnect). non-trivial = a response was served from the store after a restart or reload; distinct = distinct history hash",
		ExpectProbes: []string{"served-from-store-after-restart", "path:hit-after-reload", "crash-with-task-in-store-call", "crash-with-fetch-in-flight", "restart-then-expired-record-refetched", "hit-for-pass-after-restart"},
	})
}

func relabel(prop string, f func(o *Outcome) []Violation) func(o *Outcome) []Violation {
	return func(o *Outcome) []Violation {
		vs := f(o)
		for i := range vs {
			vs[i].Property = prop
		}
		return vs
	}
}

func relabelOnly(prop string, f func(o *Outcome) []Violation, kinds ...string) func(o *Outcome) []Violation {
	return func(o *Outcome) []Violation {
		var out []Violation
		for _, v := range f(o) {
			if contains(kinds, v.Kind) {
				v.Property = prop
				out = append(out, v)
			}
		}
		return out
	}
}

// servedOracleStrict: like servedOracle but crash / reload / network operations in
// the plan excuse nothing.
func servedOracleStrict(prop string) func(o *Outcome) []Violation {
	return func(o *Outcome) []Violation {
		saved := o.Plan.Ops
		var ops []Op
		for _, op := range saved {
			switch op.Kind {
			case OpHealth, OpReload, OpCrash, OpStop:
				continue
			}
			ops = append(ops, op)
		}
		o.Plan.Ops = ops
		defer func() { o.Plan.Ops = saved }()
		return servedOracle(prop)(o)
	}
}

func storeFaults(g *Gen, n int, rate float64, only ...string) []string {
	out := make([]string, n)
	// swarm style: every run enables its own subset of the fault kinds
	// (no bit flips here: a record carries no checksum, a flipped body or header byte cannot be
	// told from the original - what pike owes a flipped record is decided by C09: no panic,
	// no hang, no runaway allocation)
	all := []string{"err", "notfound", "delay", "trunc", "garbage", "drop", "cut", "cutend", "zerotail"}
	if len(only) > 0 {
		all = append([]string(nil), only...)
	}
	g.R.Shuffle(len(all), func(i, j int) { all[i], all[j] = all[j], all[i] })
	enabled := map[string]bool{}
	for _, k := range all[:g.n(1, len(all))] {
		enabled[k] = true
	}
	for i := range out {
		if !g.p(rate) {
			continue
		}
		f := pick(g, "err", "err", "notfound", "delay:2", "delay:4", "trunc:"+strconv.Itoa(g.n(0, 4000)), "garbage:"+strconv.Itoa(g.n(0, 99)), "drop", "cut:"+strconv.Itoa(g.n(0, 60)), "cutend:"+strconv.Itoa(g.n(1, 20)), "zerotail:"+strconv.Itoa(pick(g, 8, 16, 16, 24, 40, 200)), "flip:"+strconv.Itoa(g.n(0, 1<<20)))
		kind := f
		if j := strings.IndexByte(f, ':'); j > 0 {
			kind = f[:j]
		}
		if enabled[kind] {
			out[i] = f
		}
	}
	return out
}

func genC10(g *Gen) *Plan {
	p := &Plan{Profile: "C10", Seed: g.Seed, Policy: g.policy(), ClockMenuMs: []int{300, 1000, 2000}, ClockWeight: pick(g, 0.0, 0.03, 0.08), MaxSteps: 4000}
	size := pick(g, 1000, 1000, 8, 16)
	if size < 1000 {
		p.ShardMode = pick(g, "one", "two")
	}
	p.Configs = []Config{baseConfig(size, "1s", storeURL)}
	if g.p(0.3) {
		// a server with a content type filter of its own (it travels with every stored record)
		p.Configs[0].Servers[0].CompressContentTypeFilter = pick(g, "text|json", "json", "text|javascript|json|wasm|xml")
		p.Configs[0].Servers[0].CompressMinLength = pick(g, "", "100")
	}
	p.StoreTTL = pick(g, "exact", "exact", "late", "never")
	cancels := g.p(0.3)
	nkeys := g.n(1, 4)
	p.Scripts = map[string][]Reply{}
	var uris []string
	for i := 0; i < nkeys; i++ {
		u := fmt.Sprintf("/s%d", i)
		uris = append(uris, u)
		var s []Reply
		for j := 0; j < 8; j++ {
			if g.p(0.8) {
				r := cacheable(g.n(1, 6), g.n(0, 2500))
				r.Enc = pick(g, "", "", "gzip", "br")
				s = append(s, r)
			} else {
				s = append(s, uncacheable(g, g.n(0, 200)))
			}
		}
		p.Scripts["GET "+hostA+" "+u] = s
	}
	p.Default = cacheable(3, 40)
	p.StoreFaults = storeFaults(g, 200, pick(g, 0.15, 0.3, 0.5))
	if g.p(0.25) && nkeys > 1 {
		// slow store: every store call completes only when nothing else can move; requests that
		// need nothing but memory must not wait for it (all keys share one shard)
		p.WithholdStore = true
		p.ShardMode = "one"
		p.Configs[0].Caches[0].Size = 1000
	}
	n := g.n(12, 35)
	for i := 0; i < n; i++ {
		switch x := g.n(0, 19); {
		case x < 16:
			u := uris[g.R.IntN(len(uris))]
			op := reqOp("GET", hostA, u)
			if g.p(0.5) {
				op.Header = append(op.Header, [2]string{"Accept-Encoding", pick(g, "gzip", "br", "gzip, br")})
			}
			op.Barrier = g.p(0.2)
			// its client may go away at any step, also while the store is being read for it
			op.Cancellable = cancels && g.p(0.2)
			p.Ops = append(p.Ops, op)
		case x < 17:
			p.Ops = append(p.Ops, Op{Kind: OpPurge, Cache: "c1", Key: "GET " + hostA + " " + uris[g.R.IntN(len(uris))]})
		default:
			p.Ops = append(p.Ops, sleepOp(pick(g, 300, 1000, 2500, 7000), g.p(0.5)))
		}
	}
	// final probes after every lifetime: no immortal entry, no permanent error
	p.Ops = append(p.Ops, sleepOp(9000, true))
	for _, u := range uris {
		op := reqOp("GET", hostA, u)
		op.Barrier = true
		op.Tag = "probe"
		p.Ops = append(p.Ops, op)
	}
	return p
}

// ---------------------------------------------------------------------------------
// C09 - persistence format under disk faults (applicable part)

func genC09(g *Gen) *Plan {
	p := &Plan{Profile: "C09", Seed: g.Seed, Policy: "uniform", Sequential: true, MaxSteps: 400000, MeasureAlloc: true}
	p.ShardMode = "one"
	cfg := baseConfig(8, "20s", storeURL) // one shard of capacity 1: the other key evicts the key under test
	cfg.Servers[0].CompressMinLength = pick(g, "", "100")
	p.Configs = []Config{cfg}
	p.StoreTTL = "exact"
	key := "GET " + hostA + " /rec"
	other := "GET " + hostA + " /other"
	mode := pick(g, "cut", "cut", "flip", "garbage", "zerotail")
	hfpRecord := g.p(0.2)
	// the record under test
	var rec Reply
	if hfpRecord {
		rec = uncacheable(g, g.n(0, 100))
	} else {
		rec = cacheable(3000, pick(g, 0, 1, 50, 200, 200, 1500))
		rec.Enc = pick(g, "", "", "gzip", "br")
		rec.CType = pick(g, "text/plain", "application/json", "image/png")
		if g.p(0.5) {
			rec.Header = append(rec.Header, [2]string{"X-Multi", "a"}, [2]string{"X-Multi", "b"}, [2]string{"X-Note", "café 中文"})
		}
		if g.p(0.3) {
			rec.ETag = `"abc"`
		}
		if g.p(0.08) && g.Tier != "thorough" {
			// (quick tier only: the thorough tier repeats every request 1500 times and the history
			// keeps every body)
			// a body that compresses several hundred times: the record is a few KB, the body 3 MB
			rec.Size = 3_000_000
			rec.Class = "rep"
			rec.Enc = ""
			rec.CType = "text/plain"
		}
		if g.p(0.12) {
			// a very long header value (a Link list, a policy): the header block of the record
			// is far beyond 64 KiB
			rec.Header = append(rec.Header, [2]string{"Link", strings.Repeat("<https://a.test/some/long/path/of/a/linked/resource?with=query>; rel=preload, ", g.n(900, 1400))})
		}
	}
	p.Scripts = map[string][]Reply{key: {rec}} // the last entry of a script repeats
	p.Default = cacheable(3000, 30)
	iters := 24
	start := g.n(0, 1400)
	if g.Tier == "thorough" {
		iters = 1500 // covers every offset of records up to 1500 bytes: exhaustive per record
		start = 0
		if mode != "cut" {
			iters = 200
		}
	}
	var faults []string
	faults = append(faults, "") // first lookup: nothing stored yet
	p.Ops = append(p.Ops, reqOp("GET", hostA, "/rec"))
	// clean reloads first: evicted, some seconds pass, read back undamaged - same status,
	// headers, body for every Accept-Encoding, Age continuing from the original fetch
	for i := 0; i < 3; i++ {
		op := reqOp("GET", hostA, "/rec")
		op.Tag = "clean-reload"
		if ae := pick(g, "", "gzip", "br"); ae != "" {
			op.Header = append(op.Header, [2]string{"Accept-Encoding", ae})
		}
		p.Ops = append(p.Ops, reqOp("GET", hostA, "/other"), sleepOp(pick(g, 1000, 2000, 3500), true), op)
		faults = append(faults, "")
	}
	for i := 0; i < iters; i++ {
		p.Ops = append(p.Ops, reqOp("GET", hostA, "/other")) // evicts /rec
		op := reqOp("GET", hostA, "/rec")
		op.Tag = mode
		if g.p(0.5) {
			op.Header = append(op.Header, [2]string{"Accept-Encoding", pick(g, "gzip", "br")})
		}
		p.Ops = append(p.Ops, op)
		// whatever the damaged read left behind must have expired after the lifetime: the next
		// (undamaged) lookup of the evicted key has to reach the origin
		after := reqOp("GET", hostA, "/rec")
		after.Tag = "after-lifetime"
		p.Ops = append(p.Ops, sleepOp(3_100_000, true), after)
		switch mode {
		case "cut":
			off := start + i
			if g.Tier != "thorough" && i%4 == 3 {
				off = g.n(0, 40) // the header part of the record is the dense part
			}
			if i%4 == 1 {
				// ... and so is its end (the fixed-width timestamps): cut a few bytes off the tail
				faults = append(faults, "cutend:"+strconv.Itoa(1+(i/4)%24))
				break
			}
			faults = append(faults, "cut:"+strconv.Itoa(off))
		case "flip":
			faults = append(faults, "flip:"+strconv.Itoa(g.n(0, 30000)))
		case "zerotail":
			faults = append(faults, "zerotail:"+strconv.Itoa(1+i%64))
		default:
			faults = append(faults, "garbage:"+strconv.Itoa(g.n(0, 1<<20)))
		}
		// (the entry is still resident at that point: if the damaged read had been refetched it
		// has expired and the lookup re-reads the store - undamaged)
		faults = append(faults, "")
	}
	p.GetFaults = map[string][]string{key: faults}
	_ = other
	// the key is neither a permanent error nor immortal
	p.Ops = append(p.Ops, reqOp("GET", hostA, "/other"), sleepOp(3_100_000, true))
	probe := reqOp("GET", hostA, "/rec")
	probe.Tag = "probe"
	p.Ops = append(p.Ops, reqOp("GET", hostA, "/other"), probe)
	p.Notes = "mode=" + mode
	return p
}

func oracleC09(o *Outcome) []Violation {
	var out []Violation
	views := o.Views()
	taskView := map[int]*View{}
	for _, v := range views {
		taskView[v.R.Task] = v
	}
	for _, u := range o.Hist.Ups {
		if u.Reply.Enc != "" || (u.Shareable && len(u.BodyRaw) > 100) {
			o.Hist.Probes["record-with-compressed-variants"]++
			break
		}
	}
	// round trip through the store: an undamaged, unexpired record of a stored response comes
	// back as that response (status / headers / body are the response oracle's business)
	for _, v := range views {
		if v.R.Tag != "clean-reload" || v.R.ReturnSeq < 0 {
			continue
		}
		first := o.Hist.Ups[0]
		if first.Verdict.Ambiguous || !first.Answered || first.Key != v.R.Key || first.Reply.Fault != "" {
			continue
		}
		if !first.Shareable {
			// a hit-for-pass marker (period 20s, the reloads fall inside it) comes back as a marker:
			// the request passes, it does not take the fetching role again
			o.Hist.Probes["clean-reload-of-marker-checked"]++
			if v.XStatus == "fetching" {
				out = append(out, violation("C09", "undamaged-record-not-restored", "an undamaged, unexpired record did not come back as the stored response",
					"client op %d %s: the key's hit-for-pass marker (written %d s earlier, period 20 s) was evicted and its record read back intact, yet the request took the fetching role again (label %q)", v.R.Op, v.R.Key, (v.R.InvokeT-first.ReplyT)/1000, v.XStatus))
			}
			continue
		}
		o.Hist.Probes["clean-reload-checked"]++
		if enc := v.R.Res.Header.Get("Content-Encoding"); len(v.OwnUps) == 0 && (enc == "gzip" || enc == "br") {
			// served as stored (no transcoding, no fetch): decoding the record and answering from it
			// costs a small multiple of the record, however large the body it stands for
			for _, sr := range o.Hist.Stores {
				if sr.Task == v.R.Task && sr.Op == "get" && sr.OutLen > 0 {
					o.Hist.Probes["clean-reload-allocation-checked"]++
					if len(first.BodyRaw) > 1<<20 {
						o.Hist.Probes["clean-reload-of-body>1MiB"]++
					}
					if v.R.Res.AllocBytes > int64(64*sr.OutLen+1<<20) {
						out = append(out, violation("C09", "allocation-on-valid-record", "decoding an intact record allocated far more than its size",
							"client op %d %s: %d bytes allocated while answering (Content-Encoding %s, no upstream contact) from a %d byte record whose body decodes to %d bytes", v.R.Op, v.R.Key, v.R.Res.AllocBytes, enc, sr.OutLen, len(first.BodyRaw)))
					}
					break
				}
			}
		}
		if len(first.Reply.Header) > 0 && len(first.Call.header.Get("Link")) > 65536 {
			o.Hist.Probes["clean-reload-of-header-block>64KiB"]++
		}
		if len(v.OwnUps) > 0 || v.Kind != "origin" {
			out = append(out, violation("C09", "undamaged-record-not-restored", "an undamaged, unexpired record did not come back as the stored response",
				"client op %d %s: the entry was evicted and its record (written %d s earlier, lifetime %d s) read back intact, yet the request was not answered from it (kind %s, %d upstream contacts, label %q)", v.R.Op, v.R.Key, (v.R.InvokeT-first.ReplyT)/1000, first.Lifetime, v.Kind, len(v.OwnUps), v.XStatus))
		}
	}
	for _, s := range o.Hist.Stores {
		if s.Op != "get" || s.Task < 0 {
			continue
		}
		v := taskView[s.Task]
		if v == nil {
			continue
		}
		r := v.R
		fault := s.Fault
		kind := ""
		if len(fault) >= 3 {
			switch fault[:3] {
			case "cut":
				if s.FullLen == 0 {
					continue // offset beyond the record: nothing was cut
				}
				kind = "cut" // ("cutend" shares the prefix)
			case "fli":
				kind = "flip"
			case "gar":
				kind = "garbage"
			case "zer":
				kind = "zerotail"
			}
		}
		if kind == "" || s.OutLen == 0 && kind != "cut" {
			continue
		}
		o.Hist.Probes[kind+"-record-checked"]++
		// robustness: no panic, bounded allocation
		if v.Kind == "aborted" {
			out = append(out, violation("C09", "panic-on-bad-record", "decoding a damaged record panicked",
				"client op %d %s: store returned a record damaged by %q (len %d of %d) and the handler panicked: %s", r.Op, r.Key, fault, s.OutLen, s.FullLen, r.Res.PanicVal))
			continue
		}
		if r.Res != nil {
			o.Hist.Probes[fmt.Sprintf("alloc-MB-while-handling-damaged-record:%d", r.Res.AllocBytes>>20)]++
		}
		// (the allowance covers the fetch that follows a miss when the garbage collector has just
		// emptied the pooled gzip / brotli writers: 2-3 MB in a tenth of the requests, 5 MB seen once
		// in several million; an allocation sized from a damaged length field is far beyond it)
		// (plus what fetching and compressing the origin's body costs when the request went upstream:
		// 11-15 x its size was measured for a 3 MB body)
		fetched := 0
		for _, u := range v.OwnUps {
			fetched += len(u.BodyRaw)
		}
		if r.Res != nil && r.Res.AllocBytes > int64(64*max(s.OutLen, s.FullLen)+32<<20+24*fetched) {
			out = append(out, violation("C09", "allocation-on-bad-record", "decoding a damaged record allocated far more than its size",
				"client op %d %s: %d bytes allocated while handling a %d byte record damaged by %q", r.Op, r.Key, r.Res.AllocBytes, s.OutLen, fault))
		}
		if kind == "cut" {
			// every truncated record is an error = a miss: the request reaches the origin
			// and is answered correctly from it
			if len(v.OwnUps) == 0 {
				detail := fmt.Sprintf("client op %d %s: the store returned the record cut at offset %d of %d", r.Op, r.Key, s.CutAt, s.FullLen)
				switch v.Kind {
				case "origin":
					out = append(out, violation("C09", "truncated-record-served", "truncated record was not treated as a miss", detail+fmt.Sprintf(" and the request was answered without upstream contact (status %d, x-status %q, reply #%d)", r.Res.Status, v.XStatus, v.Serial)))
				default:
					out = append(out, violation("C09", "truncated-record-error", "truncated record turned into a client error instead of a miss", detail+fmt.Sprintf(" and the client got %s (status %d, body %q)", v.Kind, r.Res.Status, trunc(string(r.Res.Body), 80))))
				}
				continue
			}
			if v.Kind == "origin" {
				if ok, why := bodyMatches(r.Res, v.Up); !ok && r.Method != "HEAD" {
					out = append(out, violation("C09", "wrong-body-after-truncated-record", "response after a truncated record is not the origin's", "client op %d %s: %s", r.Op, r.Key, why))
				}
			}
		}
	}
	// final probe: reaches the origin (no immortal entry) and is served (no permanent error)
	for _, v := range views {
		if v.R.Tag != "probe" && v.R.Tag != "after-lifetime" {
			continue
		}
		if strings.Contains(o.Plan.Notes, "mode=flip") {
			// a flipped bit inside the timestamps is a well-formed record with another expiry:
			// undetectable without an integrity check; flips are checked for robustness only
			continue
		}
		if v.Kind == "origin" && len(v.OwnUps) == 1 && v.XStatus != "hitForPass" {
			o.Hist.Probes["final-probe-ok"]++
			continue
		}
		if v.Kind == "pending" || v.Kind == "dead" {
			continue
		}
		out = append(out, violation("C09", "key-damaged-for-good", "after a damaged record the key stays an error or an immortal entry",
			"final probe op %d %s after every lifetime had passed: kind=%s status=%d upstream contacts=%d x-status=%q", v.R.Op, v.R.Key, v.Kind, v.R.Res.Status, len(v.OwnUps), v.XStatus))
	}
	for _, u := range o.Hist.Ups {
		if !u.Shareable && u.Key == "GET "+hostA+" /rec" {
			o.Hist.Probes["hit-for-pass-record"]++
			break
		}
	}
	return out
}

// ---------------------------------------------------------------------------------
// C08 - persisted entries across eviction, stop and kill

func genC08(g *Gen) *Plan {
	p := &Plan{Profile: "C08", Seed: g.Seed, Policy: g.policy(), ClockMenuMs: []int{300, 1000, 2000}, ClockWeight: pick(g, 0.0, 0.03, 0.08), MaxSteps: 5000}
	size := pick(g, 8, 8, 16, 1000)
	if size < 1000 {
		p.ShardMode = pick(g, "one", "two", "two")
	}
	p.Configs = []Config{baseConfig(size, pick(g, "2s", "5s"), storeURL)}
	p.StoreTTL = pick(g, "exact", "late", "never")
	nkeys := g.n(3, 8)
	p.Scripts = map[string][]Reply{}
	var uris []string
	for i := 0; i < nkeys; i++ {
		u := fmt.Sprintf("/d%d", i)
		uris = append(uris, u)
		var s []Reply
		for j := 0; j < 8; j++ {
			if g.p(0.85) {
				r := cacheable(pick(g, 2, 4, 8, 30), g.n(0, 1500))
				r.Enc = pick(g, "", "", "gzip", "br", "zst")
				if g.p(0.3) {
					r.Header = append(r.Header, [2]string{"X-Multi", "a"}, [2]string{"X-Multi", "b"})
				}
				s = append(s, r)
			} else {
				s = append(s, uncacheable(g, g.n(0, 200)))
			}
		}
		p.Scripts["GET "+hostA+" "+u] = s
	}
	p.Default = cacheable(3, 40)
	n := g.n(15, 40)
	tear := g.p(0.4)
	for i := 0; i < n; i++ {
		switch x := g.n(0, 19); {
		case x < 14:
			op := reqOp("GET", hostA, uris[g.R.IntN(len(uris))])
			if g.p(0.5) {
				op.Header = append(op.Header, [2]string{"Accept-Encoding", pick(g, "gzip", "br", "gzip, br")})
			}
			op.Barrier = g.p(0.2)
			p.Ops = append(p.Ops, op)
		case x < 15:
			p.Ops = append(p.Ops, Op{Kind: OpPurge, Cache: "c1", Key: "GET " + hostA + " " + uris[g.R.IntN(len(uris))]})
		case x < 17:
			p.Ops = append(p.Ops, sleepOp(pick(g, 300, 1000, 2500, 5000), g.p(0.5)))
		case x < 19:
			// a kill is not a barrier: it lands wherever the scheduler starts it
			p.Ops = append(p.Ops, Op{Kind: OpCrash, Tear: tear, NoStore: g.p(0.1)})
		default:
			p.Ops = append(p.Ops, Op{Kind: OpStop, Barrier: true, NoStore: g.p(0.1)})
		}
	}
	return p
}

func oracleC08(o *Outcome) []Violation {
	var out []Violation
	views := o.Views()
	// process incarnations
	type restart struct {
		seq int
		t   int64
	}
	var restarts []restart
	for _, m := range o.Hist.Misc {
		if m.Kind == OpCrash || m.Kind == OpStop {
			restarts = append(restarts, restart{m.ReturnSeq, m.ReturnT})
		}
	}
	for _, v := range views {
		r := v.R
		if v.Kind != "origin" || v.Up.Req < 0 || v.Up.Key != r.Key {
			continue
		}
		u := v.Up
		f := o.Hist.Reqs[u.Req]
		if f == r || len(v.OwnUps) > 0 {
			continue
		}
		crossed := u.Epoch != r.Epoch
		if crossed {
			o.Hist.Probes["served-from-store-after-restart"]++
		}
		if !u.Shareable {
			if !u.Verdict.Ambiguous {
				out = append(out, violation("C08", "unshareable-served", "reply that was never cacheable served from cache / store",
					"client op %d %s answered without upstream contact from reply #%d which is not shareable", r.Op, r.Key, u.Serial))
			}
			continue
		}
		// original expiry: created in [reply(u), return(f) | kill(f)]
		latest := int64(-1)
		switch {
		case f.ReturnSeq >= 0:
			latest = f.ReturnT
		case f.Dead:
			latest = f.DeadT
		}
		if latest < 0 {
			continue
		}
		T := int64(u.Lifetime)
		if secFloor(r.InvokeT) > secFloor(latest)+T {
			out = append(out, violation("C08", "stale-after-reload", "persisted response served after its original expiry",
				"client op %d %s (epoch %d, invoked t=%dms) was answered without upstream contact from reply #%d (epoch %d, lifetime %ds, obtained between t=%dms and t=%dms)",
				r.Op, r.Key, r.Epoch, r.InvokeT, u.Serial, u.Epoch, T, u.ReplyT, latest))
			continue
		}
		if u.Call.header.Get("Age") == "" {
			age := v.Age
			if age < 0 {
				age = 0
			}
			lo := secFloor(r.InvokeT) - secFloor(latest)
			if lo < 0 {
				lo = 0
			}
			hi := secFloor(r.ReturnT) - secFloor(u.ReplyT)
			if int64(age) < lo || int64(age) > hi {
				if !ageOfNewerEpoch(o, v, int64(age)) {
					out = append(out, violation("C08", "age-restarted", "Age does not continue from the original fetch",
						"client op %d %s: Age %d on reply #%d (obtained t=%d..%dms, served t=%d..%dms: possible ages %d..%d, restart crossed: %v)", r.Op, r.Key, age, u.Serial, u.ReplyT, latest, r.InvokeT, r.ReturnT, lo, hi, crossed))
				}
			}
		}
	}
	// probes about where the kills landed
	for _, m := range o.Hist.Misc {
		if m.Kind != OpCrash {
			continue
		}
		for _, s := range o.Hist.Stores {
			if s.CallSeq < m.InvokeSeq && s.DoneSeq < 0 {
				o.Hist.Probes["crash-with-task-in-store-call"]++
				break
			}
		}
		for _, u := range o.Hist.Ups {
			if u.ArriveSeq < m.InvokeSeq && u.TimedOut && !u.Answered && u.EndSeq >= m.InvokeSeq && u.EndSeq <= m.ReturnSeq {
				o.Hist.Probes["crash-with-fetch-in-flight"]++
				break
			}
		}
	}
	for _, v := range views {
		if v.Kind == "origin" && len(v.OwnUps) == 1 && v.R.Epoch > 0 {
			for _, u0 := range o.Hist.Ups {
				if u0.Key == v.R.Key && u0.Epoch < v.R.Epoch && u0.Shareable {
					o.Hist.Probes["restart-then-expired-record-refetched"]++
					break
				}
			}
			if v.XStatus == "hitForPass" {
				o.Hist.Probes["hit-for-pass-after-restart"]++
			}
		}
	}
	return out
}

// oracleC10Purge: purges keep working while the store misbehaves. A purge whose store
// delete went through (possibly slowly) must be as effective as without faults (C18's
// oracle); a purge whose delete was failed by the plan may leave the persisted copy behind
// (stated relaxation) but must still drop the entry from memory.
func oracleC10Purge(o *Outcome) []Violation {
	failed := map[*MiscRec]bool{}
	var okPurges []*MiscRec
	for _, m := range o.Hist.Misc {
		if m.Kind != "purge" {
			okPurges = append(okPurges, m)
			continue
		}
		bad := false
		for _, s := range o.Hist.Stores {
			if s.Task == m.Task && s.Op == "delete" && s.Fault != "" && !strings.HasPrefix(s.Fault, "delay") {
				bad = true
			}
		}
		if bad {
			failed[m] = true
		} else {
			okPurges = append(okPurges, m)
		}
	}
	saved := o.Hist.Misc
	o.Hist.Misc = okPurges
	var out []Violation
	for _, v := range oracleC18(o) {
		if v.Kind == "served-purged-entry" {
			v.Property = "C10"
			out = append(out, v)
		}
	}
	o.Hist.Misc = saved
	// memory must be purged even when the store delete failed
	for m := range failed {
		if m.ReturnSeq < 0 {
			continue
		}
		for _, v := range o.Views() {
			r := v.R
			if r.Key != m.Key || v.Kind != "origin" || len(v.OwnUps) > 0 || v.Up.Req < 0 || r.InvokeSeq < m.ReturnSeq {
				continue
			}
			if c := cacheOf(&o.Plan.Configs[0], r.Addr); m.Cache != "" && m.Cache != c {
				continue // the purge named another cache
			}
			f := o.Hist.Reqs[v.Up.Req]
			if f == r || f.ReturnSeq < 0 || f.ReturnSeq > m.InvokeSeq || f.Addr != r.Addr {
				continue
			}
			// served the purged reply: only acceptable if it came back from the store
			reloaded := false
			for _, s := range o.Hist.Stores {
				if s.Op == "get" && s.Key == r.Key && s.CallSeq > m.ReturnSeq && s.CallSeq < r.ReturnSeq && s.OutLen > 0 {
					reloaded = true
				}
			}
			if !reloaded {
				out = append(out, violation("C10", "purge-kept-memory-entry", "a purge whose store delete failed left the entry in memory",
					"purge(key=%q) returned at seq %d (its store delete failed as planned); client op %d invoked at seq %d was still answered from reply #%d (fetched before the purge) although no record was read back from the store in between", m.Key, m.ReturnSeq, r.Op, r.InvokeSeq, v.Serial))
			}
		}
	}
	return out
}

// oracleC10SlowStore: with store calls withheld until nothing else can move, a request that is
// answered from memory (no upstream contact, no store call of its own, never parked behind a
// fetch) and that began while a store call for ANOTHER key was pending must have finished
// before that call completed: a slow store never delays what memory can serve.
func oracleC10SlowStore(o *Outcome) []Violation {
	if !o.Plan.WithholdStore {
		return nil
	}
	var out []Violation
	ownStore := map[int]bool{}
	for _, s := range o.Hist.Stores {
		ownStore[s.Task] = true
	}
	for _, s := range o.Hist.Stores {
		if s.DoneSeq < 0 || s.Serial < 0 {
			continue
		}
		if s.Op == "delete" {
			// a purge deletes from the store while holding the shard lock (that is what makes it
			// atomic with respect to reloads of the key): other keys of the shard wait for it by design
			continue
		}
		for _, v := range o.Views() {
			r := v.R
			if r.Key == s.Key || v.Kind != "origin" || len(v.OwnUps) > 0 || ownStore[r.Task] || r.ReleasedBy != -1 || r.BlockedSeq != 0 {
				continue
			}
			// the entry really was in memory when the request began: its fetch had completed,
			// and no store call on the request's own key overlaps the request
			f := o.Hist.Reqs[v.Up.Req]
			if v.Up.Req < 0 || f.ReturnSeq < 0 || f.ReturnSeq > r.InvokeSeq {
				continue
			}
			busy := false
			for _, s2 := range o.Hist.Stores {
				overlaps := s2.CallSeq < r.ReturnSeq && (s2.DoneSeq < 0 || s2.DoneSeq > r.InvokeSeq)
				if overlaps && (s2.Key == r.Key || s2.Op == "delete") {
					busy = true // its own key is busy, or a purge holds the shard
				}
			}
			if busy {
				continue
			}
			if r.InvokeSeq > s.CallSeq && r.InvokeSeq < s.DoneSeq {
				o.Hist.Probes["memory-hit-during-pending-store-call"]++
				if r.ReturnSeq > s.DoneSeq {
					out = append(out, violation("C10", "memory-hit-waited-for-store", "a response held in memory waited for a slow store call on another key",
						"client op %d %s (answered from memory, invoked seq %d) returned at seq %d, only after the pending store %s of %q (seq %d..%d) had completed, although store calls were withheld until nothing else could move",
						r.Op, r.Key, r.InvokeSeq, r.ReturnSeq, s.Op, s.Key, s.CallSeq, s.DoneSeq))
				}
			}
		}
	}
	return out
}
