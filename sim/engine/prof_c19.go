package engine

import (
	"fmt"
	"sort"
	"strings"
)

// ---------------------------------------------------------------------------------
// C19 - traffic goes only to healthy upstream servers, backups last

func init() {
	register(&Profile{
		Name:     "C19",
		Property: "C19",
		Gen:      func(g *Gen) *Plan { return swarm(g, genC19(g), 0.2, 0) },
		Oracles:  []func(o *Outcome) []Violation{oracleC19, livenessOracle("C19")},
		NonTrivial: func(o *Outcome) bool {
			return o.Hist.FaultFired["net:down"]+o.Hist.FaultFired["net:blackhole"] > 0 && o.Hist.Probes["batch-checked"] > 0
		},
		Rule:         "seeded plans: one upstream with 1-4 servers (primary / backup mixes), policy first / roundRobin / random / leastconn, optional http ping path (/ping or /; a server may then keep its port open while its health URL answers 500), in 30% of the plans beside a second upstream with a location of its own; a scripted sequence of network events (server refuses connections, black-holes them until the check times out, accepts again); after every event the simulated clock is advanced by 30-41s (settle: rest of a running check round + next tick + one full round of sequential 3s-timeout probes), then a sequential batch of 4-12 requests. The health checker is the real library code driven by the fake ticker; only the TCP dial is simulated. Oracle after settle: every request reaches a server that is up, a backup only if no primary is up, round robin spreads a batch evenly over the healthy primaries (counts differ by <= 1), with no server up every request gets a 5xx at once without reaching any origin, and traffic resumes by itself after recovery. in a fifth of the plans a tenth of the clients disconnect at a scheduler-chosen step. non-trivial = at least one outage was injected and a batch checked; distinct = distinct history hash",
		ExpectProbes: []string{"batch-checked", "batch-all-down", "batch-backup-only", "batch-after-recovery", "round-robin-batch", "blackhole-settled", "reload-of-unchanged-upstream"},
	})
}

func genC19(g *Gen) *Plan {
	p := &Plan{Profile: "C19", Seed: g.Seed, Policy: "uniform", Sequential: true, MaxSteps: 6000}
	ns := g.n(1, 4)
	var servers []UpstreamSrv
	var addrs []string
	for i := 0; i < ns; i++ {
		a := fmt.Sprintf("10.0.1.%d:80%d", i+1, i)
		addrs = append(addrs, a)
		servers = append(servers, UpstreamSrv{Addr: "http://" + a, Backup: ns > 1 && g.p(0.35)})
	}
	policy := pick(g, "first", "roundRobin", "roundRobin", "random", "leastconn", "")
	up := UpstreamCfg{Name: "u1", Policy: policy, Servers: servers, HealthCheck: pick(g, "", "", "/ping", "/")}
	p.Configs = []Config{{
		Caches:    []CacheCfg{{Name: "c1", Size: 1000, HitForPass: "300s"}},
		Upstreams: []UpstreamCfg{up},
		Locations: []LocationCfg{{Name: "l1", Upstream: "u1"}},
		Servers:   []ServerCfg{{Addr: srvAddr, Locations: []string{"l1"}, Cache: "c1"}},
	}}
	if g.p(0.3) {
		// the instance serves a second upstream as well (its own location): building one must not
		// depend on the other
		c := &p.Configs[0]
		c.Upstreams = append(c.Upstreams, UpstreamCfg{Name: "u2", Policy: "first", Servers: []UpstreamSrv{{Addr: "http://" + originB}}})
		c.Locations = append(c.Locations, LocationCfg{Name: "l2", Upstream: "u2", Prefixes: []string{"/side"}})
		c.Servers[0].Locations = append(c.Servers[0].Locations, "l2")
	}
	p.Default = Reply{Status: 200, Size: 20, Header: [][2]string{{"Cache-Control", "no-cache"}}}
	batch := func() {
		n := g.n(4, 12)
		for i := 0; i < n; i++ {
			op := reqOp(pick(g, "POST", "POST", "GET"), hostA, "/hc")
			if op.Method == "POST" {
				op.Body = "x"
			}
			op.Tag = "batch"
			p.Ops = append(p.Ops, op)
		}
	}
	batch()
	events := g.n(1, 6)
	for ev := 0; ev < events; ev++ {
		k := g.n(1, max(1, ns))
		for j := 0; j < k; j++ {
			a := addrs[g.R.IntN(len(addrs))]
			mode := pick(g, "down", "down", "blackhole", "up", "up")
			if up.HealthCheck != "" && g.p(0.3) {
				// still listening, but its health URL answers 500
				mode = "http500"
			}
			p.Ops = append(p.Ops, Op{Kind: OpHealth, Server: a, Net: mode})
		}
		if g.p(0.15) {
			for _, a := range addrs {
				p.Ops = append(p.Ops, Op{Kind: OpHealth, Server: a, Net: pick(g, "down", "blackhole")})
			}
		}
		if g.p(0.3) {
			// the same configuration is applied again (an update that touched something else):
			// health checking of the unchanged upstream must go on afterwards
			p.Ops = append(p.Ops, Op{Kind: OpReload, Config: 0, Barrier: true})
		}
		// settle: the checker probes the servers one after the other (3s timeout each
		// when black-holed) on a 5s ticker that drops ticks while a round is running:
		// worst case = rest of the running round + next tick + one full round
		p.Ops = append(p.Ops, sleepOp(pick(g, 30000, 35000, 41000), true))
		batch()
	}
	// everything recovers
	for _, a := range addrs {
		p.Ops = append(p.Ops, Op{Kind: OpHealth, Server: a, Net: "up"})
	}
	p.Ops = append(p.Ops, sleepOp(30000, true))
	batch()
	return p
}

func oracleC19(o *Outcome) []Violation {
	var out []Violation
	cfg := &o.Plan.Configs[0]
	up := cfg.Upstreams[0]
	backup := map[string]bool{}
	var order []string
	for _, s := range up.Servers {
		a := strings.TrimPrefix(s.Addr, "http://")
		backup[a] = s.Backup
		order = append(order, a)
	}
	// replay the network events over the history
	net := map[string]string{}
	for _, a := range order {
		net[a] = "up"
	}
	views := o.Views()
	byOp := map[int]*View{}
	for _, v := range views {
		byOp[v.R.Op] = v
	}
	var batch []*View
	sawOutage := false
	flush := func() {
		if len(batch) == 0 {
			return
		}
		o.Hist.Probes["batch-checked"]++
		var upPrim, upBack []string
		for _, a := range order {
			if net[a] == "up" {
				if backup[a] {
					upBack = append(upBack, a)
				} else {
					upPrim = append(upPrim, a)
				}
			}
		}
		allowed := upPrim
		if len(upPrim) == 0 {
			allowed = upBack
			if len(upBack) > 0 {
				o.Hist.Probes["batch-backup-only"]++
			}
		}
		if sawOutage && len(allowed) > 0 {
			o.Hist.Probes["batch-after-recovery"]++
		}
		counts := map[string]int{}
		gone := false
		for _, v := range batch {
			r := v.R
			if r.Cancelled {
				gone = true
				// its client went away: whatever it got is its own business (what it may have done
				// to the requests after it is theirs)
				o.Hist.Probes["batch-request-with-client-gone"]++
				continue
			}
			if len(allowed) == 0 {
				o.Hist.Probes["batch-all-down"]++
				if len(v.OwnUps) > 0 {
					out = append(out, violation("C19", "forwarded-with-none-healthy", "request forwarded although no server is healthy",
						"client op %d reached %s while every server is down (network: %v)", r.Op, v.OwnUps[0].Target, net))
				} else if v.Kind != "error" || r.Res.Status < 500 {
					out = append(out, violation("C19", "no-5xx-with-none-healthy", "no 5xx although no server is healthy",
						"client op %d: kind=%s status=%d", r.Op, v.Kind, r.Res.Status))
				} else if r.ReturnT != r.InvokeT {
					out = append(out, violation("C19", "slow-5xx", "5xx with no healthy server was not immediate",
						"client op %d took %dms of simulated time", r.Op, r.ReturnT-r.InvokeT))
				}
				continue
			}
			if len(v.OwnUps) != 1 || v.Kind != "origin" {
				out = append(out, violation("C19", "not-served-with-healthy-server", "request not served although a server is healthy",
					"client op %d: kind=%s status=%d upstream contacts=%d, healthy servers %v (network %v)", r.Op, v.Kind, r.Res.Status, len(v.OwnUps), allowed, net))
				continue
			}
			t := v.OwnUps[0].Target
			counts[t]++
			if !contains(allowed, t) {
				kind, sig := "sent-to-unhealthy-server", "request sent to a server whose health check fails"
				if net[t] == "up" && backup[t] {
					kind, sig = "backup-used-while-primary-healthy", "backup server used although a primary is healthy"
				}
				out = append(out, violation("C19", kind, sig, "client op %d was forwarded to %s; network %v, backups %v, allowed %v", r.Op, t, net, backup, allowed))
			}
		}
		// (a request whose client left may or may not have taken its turn: no evenness claim then)
		if (up.Policy == "roundRobin" || up.Policy == "") && len(allowed) > 1 && !gone {
			o.Hist.Probes["round-robin-batch"]++
			lo, hi := 1<<30, 0
			for _, a := range allowed {
				c := counts[a]
				if c < lo {
					lo = c
				}
				if c > hi {
					hi = c
				}
			}
			if hi-lo > 1 {
				out = append(out, violation("C19", "round-robin-uneven", "round robin does not share sequential requests evenly",
					"batch of %d sequential requests over healthy primaries %v: counts %v", len(batch), allowed, counts))
			}
		}
		batch = nil
	}
	for i, op := range o.Plan.Ops {
		switch op.Kind {
		case OpHealth:
			flush()
			net[op.Server] = op.Net
			if op.Net != "up" {
				sawOutage = true
			}
			if op.Net == "blackhole" {
				o.Hist.Probes["blackhole-settled"]++
			}
		case OpSleep, OpReload:
			flush()
			if op.Kind == OpReload {
				o.Hist.Probes["reload-of-unchanged-upstream"]++
			}
		case OpReq:
			if v := byOp[i]; v != nil && v.R.ReturnSeq >= 0 {
				batch = append(batch, v)
			}
		}
	}
	flush()
	_ = sort.Strings
	return out
}
