package engine

import (
	"crypto/sha256"
	"encoding/hex"
	"fmt"
	"sort"
	"strings"
)

// Event is one line of the run's history. Only the controller appends.
type Event struct {
	Seq  int    `json:"seq"`
	Step int    `json:"step"`
	T    int64  `json:"t_ms"`
	Kind string `json:"kind"`
	Task string `json:"task,omitempty"`
	Text string `json:"text,omitempty"`
}

// ReqRec is the record of one client request (derived while the run proceeds).
type ReqRec struct {
	Idx       int
	Op        int
	Task      int
	Key       string
	Method    string
	Host      string
	URI       string
	Addr      string
	ReqHeader [][2]string
	Tag       string
	InvokeSeq int
	InvokeT   int64
	ReturnSeq int // -1: never returned
	ReturnT   int64
	Ups       []int // indices into History.Ups
	Res       *ClientResult
	Cancelled bool // the client went away while the request was in progress
	Dead      bool // abandoned by a crash
	DeadT     int64
	DeadSeq   int
	// ReleasedBy: this request was seen natively blocked inside pike (coalesced behind a
	// fetch) and left that state in a step in which only task ReleasedBy ran (-1: never
	// blocked, -2: released by something else, e.g. a timer)
	ReleasedBy  int
	ReleasedSeq int
	BlockedSeq  int // first seq at which it was seen blocked (0 = never)
	Epoch       int // process incarnation (crash/restart count)
}

// UpRec is one request seen by the simulated origin.
type UpRec struct {
	Serial    int
	Task      int
	Req       int // index into History.Reqs, -1 if not from a client op
	Key       string
	Target    string // origin server address the proxy chose
	ArriveSeq int
	ArriveT   int64
	ReplySeq  int // -1: never answered
	ReplyT    int64
	Call      *UpCall
	Reply     Reply
	Answered  bool
	TimedOut  bool   // caller's context ended before an answer
	BodyRaw   []byte // decoded (identity) body the origin meant to send
	Epoch     int
	// filled by the model when the reply is chosen
	Shareable bool
	Lifetime  int
	Verdict   Verdict
	EndT      int64
	EndSeq    int // seq at which the request stopped being in flight (reply / caller timeout / kill); 0 = still in flight
}

type StoreRec struct {
	URL     string
	name    string
	Serial  int
	Task    int
	Op      string
	Key     string
	Fault   string
	CallSeq int
	DoneSeq int
	T       int64
	Len     int
	OutLen  int
	CutAt   int
	FullLen int
	TTLms   int64
	Err     string
}

type MiscRec struct {
	Kind        string // purge | reload | sleep | crash | stop | health
	Op          int
	Task        int
	InvokeSeq   int
	InvokeT     int64
	ReturnSeq   int
	ReturnT     int64
	Cache       string
	Key         string
	Text        string
	DiskChecked bool
	DiskHas     bool
}

type History struct {
	Events []Event
	Reqs   []*ReqRec
	Ups    []*UpRec
	Stores []*StoreRec
	Misc   []*MiscRec
	// summary
	Steps      int
	EndT       int64
	Stuck      []string // tasks that never finished, with what they were blocked on
	BudgetHit  bool
	FaultFired map[string]int
	Probes     map[string]int
	States     map[string]struct{}
}

func newHistory() *History {
	return &History{FaultFired: map[string]int{}, Probes: map[string]int{}, States: map[string]struct{}{}}
}

func (h *History) Hash() string {
	hh := sha256.New()
	for _, e := range h.Events {
		fmt.Fprintf(hh, "%d|%d|%d|%s|%s|%s\n", e.Seq, e.Step, e.T, e.Kind, e.Task, e.Text)
	}
	return hex.EncodeToString(hh.Sum(nil))[:24]
}

func (h *History) Trace(max int) []string {
	out := []string{}
	ev := h.Events
	if max > 0 && len(ev) > max {
		ev = ev[len(ev)-max:]
		out = append(out, fmt.Sprintf("... (%d earlier events)", len(h.Events)-max))
	}
	for _, e := range ev {
		out = append(out, fmt.Sprintf("#%d s%d t=%dms %s %s %s", e.Seq, e.Step, e.T, e.Kind, e.Task, e.Text))
	}
	return out
}

func sortedKeys(m map[string]int) []string {
	ks := make([]string, 0, len(m))
	for k := range m {
		ks = append(ks, k)
	}
	sort.Strings(ks)
	return ks
}

func hdrString(h [][2]string) string {
	parts := make([]string, 0, len(h))
	for _, kv := range h {
		parts = append(parts, kv[0]+": "+kv[1])
	}
	return strings.Join(parts, "; ")
}

// Violation is an oracle finding.
type Violation struct {
	Property string `json:"property"`
	Kind     string `json:"kind"`      // stable class used by the minimiser ("same violation")
	Sig      string `json:"signature"` // specific signature used by known-findings
	Detail   string `json:"detail"`
}
