package engine

// Plan is everything a run does apart from the schedule: configuration(s), the
// operations, what the simulated origin answers and which faults the simulated
// store / network inject. It is explicit data (JSON) so that a replay file is
// self-contained and the minimiser can delete parts of it.
type Plan struct {
	Profile string   `json:"profile"`
	Seed    uint64   `json:"seed"`
	Configs []Config `json:"configs"` // Configs[0] is the start configuration
	Ops     []Op     `json:"ops"`
	// Scripts: per client cache key ("METHOD host uri") the replies of the origin in
	// arrival order; the last entry repeats. Keys without a script get Default.
	Scripts map[string][]Reply `json:"scripts,omitempty"`
	Default Reply              `json:"default"`
	// StoreFaults[i] is the outcome of the i-th store call ("" = ok).
	StoreFaults []string `json:"store_faults,omitempty"`
	StoreTTL    string   `json:"store_ttl,omitempty"` // exact | late | never
	// GetFaults[key][n] is the outcome of the n-th Get of that key (overrides StoreFaults)
	GetFaults map[string][]string `json:"get_faults,omitempty"`
	// MeasureAlloc: record the bytes allocated during every client request
	MeasureAlloc bool `json:"measure_alloc,omitempty"`
	// Knobs
	ShardMode   string  `json:"shard_mode,omitempty"` // "" hash | "one" | "two"
	Policy      string  `json:"policy"`               // uniform | prio | freeze | fifo
	ClockMenuMs []int   `json:"clock_menu_ms,omitempty"`
	ClockWeight float64 `json:"clock_weight,omitempty"`
	MaxSteps    int     `json:"max_steps"`
	// Withhold: upstream replies of these keys are completed only when nothing else
	// is enabled (C07 non-queueing, C18 purge during fetch).
	Withhold []string `json:"withhold,omitempty"`
	// InlineStore: store calls complete inline (no parking) - used with unnamed purge.
	InlineStore bool `json:"inline_store,omitempty"`
	// WithholdStore: store calls complete only when nothing else can move
	WithholdStore bool   `json:"withhold_store,omitempty"`
	Sequential    bool   `json:"sequential,omitempty"` // every op is a barrier
	Notes         string `json:"notes,omitempty"`
}

type Config struct {
	Compresses []CompressCfg `json:"compresses,omitempty"`
	Caches     []CacheCfg    `json:"caches,omitempty"`
	Upstreams  []UpstreamCfg `json:"upstreams,omitempty"`
	Locations  []LocationCfg `json:"locations,omitempty"`
	Servers    []ServerCfg   `json:"servers,omitempty"`
}

type CompressCfg struct {
	Name   string          `json:"name"`
	Levels map[string]uint `json:"levels,omitempty"`
}
type CacheCfg struct {
	Name       string `json:"name"`
	Size       int    `json:"size"`
	HitForPass string `json:"hit_for_pass,omitempty"`
	Store      string `json:"store,omitempty"`
}
type UpstreamSrv struct {
	Addr   string `json:"addr"`
	Backup bool   `json:"backup,omitempty"`
}
type UpstreamCfg struct {
	Name           string        `json:"name"`
	HealthCheck    string        `json:"health_check,omitempty"`
	Policy         string        `json:"policy,omitempty"`
	AcceptEncoding string        `json:"accept_encoding,omitempty"`
	Servers        []UpstreamSrv `json:"servers"`
}
type LocationCfg struct {
	Name         string   `json:"name"`
	Upstream     string   `json:"upstream"`
	Prefixes     []string `json:"prefixes,omitempty"`
	Rewrites     []string `json:"rewrites,omitempty"`
	QueryStrings []string `json:"query_strings,omitempty"`
	RespHeaders  []string `json:"resp_headers,omitempty"`
	ReqHeaders   []string `json:"req_headers,omitempty"`
	Hosts        []string `json:"hosts,omitempty"`
	ProxyTimeout string   `json:"proxy_timeout,omitempty"`
}
type ServerCfg struct {
	Addr                      string   `json:"addr"`
	Locations                 []string `json:"locations"`
	Cache                     string   `json:"cache"`
	Compress                  string   `json:"compress,omitempty"`
	CompressMinLength         string   `json:"compress_min_length,omitempty"`
	CompressContentTypeFilter string   `json:"compress_filter,omitempty"`
}

// Op kinds
const (
	OpReq     = "req"
	OpPurge   = "purge"
	OpReload  = "reload"
	OpSleep   = "sleep"
	OpCrash   = "crash"  // kill: tasks abandoned, unsynced writes resolved, then restart
	OpStop    = "stop"   // graceful stop (server.Close semantics) then restart
	OpHealth  = "health" // simulated network: server addr goes up / down / blackhole
	OpEvictFn = "noop"
)

type Op struct {
	Kind    string `json:"kind"`
	Barrier bool   `json:"barrier,omitempty"` // start only when all earlier ops are done
	Quiesce bool   `json:"quiesce,omitempty"` // start only when no task at all is alive (background goroutines included)
	// req
	Addr   string      `json:"addr,omitempty"`
	Method string      `json:"method,omitempty"`
	Host   string      `json:"host,omitempty"`
	URI    string      `json:"uri,omitempty"`
	Header [][2]string `json:"header,omitempty"`
	Body   string      `json:"body,omitempty"`
	// Cancellable: the client may go away (its request context is cancelled) at a step the
	// scheduler chooses
	Cancellable bool `json:"cancellable,omitempty"`
	// purge
	Cache string `json:"cache,omitempty"`
	Key   string `json:"key,omitempty"`
	// reload
	Config int `json:"config,omitempty"`
	// sleep
	Ms int `json:"ms,omitempty"`
	// health
	Server string `json:"server,omitempty"`
	Net    string `json:"net,omitempty"` // up | down | blackhole
	// crash
	Tear bool `json:"tear,omitempty"`
	// stop: the new instance starts on empty stores (differential probing: both instances begin cold)
	Wipe bool `json:"wipe,omitempty"`
	// crash / stop: the store cannot be opened by the new instance (directory lock held by an
	// orphan, damaged directory): pike must start and serve without persistence
	NoStore bool `json:"no_store,omitempty"`
	// free annotation used by oracles (e.g. "probe")
	Tag string `json:"tag,omitempty"`
}

// Reply is one scripted answer of the origin.
type Reply struct {
	Status int         `json:"status"`
	Header [][2]string `json:"header,omitempty"`
	Enc    string      `json:"enc,omitempty"`   // "", gzip, br, lz4, zst, snz
	Class  string      `json:"class,omitempty"` // text | bin | rep (highly repetitive)
	Size   int         `json:"size"`
	CType  string      `json:"ctype,omitempty"`
	// Fault: "" | err (transport error) | hang (never answers) | abort (body breaks
	// after half) | badenc (body is not valid for the announced encoding)
	Fault string `json:"fault,omitempty"`
	// Honor conditional / range request headers like a real origin
	ETag    string `json:"etag,omitempty"`
	LastMod string `json:"last_mod,omitempty"`
}

func (p *Plan) script(key string, n int) Reply {
	s := p.Scripts[key]
	if len(s) == 0 {
		return p.Default
	}
	if n >= len(s) {
		n = len(s) - 1
	}
	return s[n]
}

func (p *Plan) storeFault(i int) string {
	if i < len(p.StoreFaults) {
		return p.StoreFaults[i]
	}
	return ""
}

func (o *Op) CacheKey() string {
	return o.Method + " " + o.Host + " " + o.URI
}
