package engine

import (
	"fmt"
	"net/url"
	"sort"
	"strings"
)

// ---------------------------------------------------------------------------------
// C16 - live reconfiguration equals a fresh start and disturbs nothing unchanged

const (
	srvAddr4 = ":3018"
	srvAddr3 = ":3017"
	originC  = "10.0.0.3:7003"
)

func init() {
	register(&Profile{
		Name:     "C16",
		Property: "C16",
		Gen:      genC16,
		Oracles:  []func(o *Outcome) []Violation{oracleC16, livenessOracle("C16")},
		NonTrivial: func(o *Outcome) bool {
			return o.Hist.Probes["probe-pairs-compared"] > 0 && o.Hist.Probes["reloads"] > 0
		},
		Rule:         "seeded sequences of 1-5 valid configurations derived by random mutations (server: min-length / filter / compress profile / cache / location list set and unset; location: rewrite, added headers, added query, upstream; upstream: server set, Accept-Encoding, policy; add / remove of a server, a location, a compress profile, the bestCompression override, a cache; restart-only settings of surviving caches held constant as documented), applied by a reload task whose steps interleave with client traffic at every yield point (in a quarter of the plans the unchanged upstream lists a black-holed server first, so that every rebuild of it spends 3 s in its first health check; requests also go to the servers that updates add and remove). Then a fixed probe battery (servers x paths x Accept-Encoding x sizes around the thresholds x content types, every probe sent twice) is answered by the live-updated instance, the process image is replaced by a fresh instance started with the final configuration only (same simulated world), and the same battery is answered again: the observation vectors (origin reached, request as the origin saw it, status, headers, Content-Encoding, encoded length, cache label) must be equal, and paths under /var/ reach the origin rewritten by the final configuration's rules and no others. Also: requests to the unchanged server never fail during updates, its cached entries survive, a removed server refuses service after the 10s grace. non-trivial = at least one reload happened and one probe pair was compared; distinct = distinct history hash",
		ExpectProbes: []string{"probe-pairs-compared", "reloads", "stable-request-during-reload", "stable-entry-hit-after-reload", "removed-server-refused-after-grace", "optional-field-unset", "server-added", "server-removed", "two-servers-removed-in-one-update", "rewrite-of-final-configuration-checked"},
	})
}

type c16State struct {
	s2MinLen, s2Filter, s2Compress, s2Cache string
	s2Locs                                  []string
	l2ReqH, l2RespH, l2Query                bool
	l2Rewrite                               string
	l2Upstream                              string
	l2Timeout                               string
	u2Server, u2AE, u2Policy                string
	hasS3, hasL3, hasCp2, hasBest, hasC3    bool
	hasS4                                   bool
	u2Second                                string // second server of u2 ("" = none)
	u2Swap, u2BackupFirst                   bool
	cpGzip                                  uint
	cpKeys                                  string // which level keys the cp profile carries: both | gzip | br
	c2Size                                  int
	c1Size                                  int
	c2Store                                 string
	u1Dead                                  bool // u1 lists a black-holed server first: every (re)build of it takes a 3s health check
}

func (st *c16State) config() Config {
	c := Config{}
	lv := map[string]uint{}
	if st.cpKeys != "br" {
		lv["gzip"] = st.cpGzip
	}
	if st.cpKeys != "gzip" {
		lv["br"] = 2
	}
	c.Compresses = []CompressCfg{{Name: "cp", Levels: lv}}
	if st.hasCp2 {
		c.Compresses = append(c.Compresses, CompressCfg{Name: "cp2", Levels: map[string]uint{"gzip": 1, "br": 1}})
	}
	if st.hasBest {
		c.Compresses = append(c.Compresses, CompressCfg{Name: "bestCompression", Levels: map[string]uint{"gzip": 1, "br": 1}})
	}
	c.Caches = []CacheCfg{{Name: "c1", Size: st.c1Size, HitForPass: "1s"}, {Name: "c2", Size: st.c2Size, HitForPass: "1s", Store: st.c2Store}}
	if st.hasC3 {
		// shares the store of c2 (one store URL may back several caches)
		c.Caches = append(c.Caches, CacheCfg{Name: "c3", Size: 500, HitForPass: "2s", Store: st.c2Store})
	}
	c.Upstreams = []UpstreamCfg{
		{Name: "u1", Policy: "first", Servers: st.u1Servers()},
		{Name: "u2", Policy: st.u2Policy, AcceptEncoding: st.u2AE, Servers: st.u2Servers()},
		{Name: "u3", Policy: "first", Servers: []UpstreamSrv{{Addr: "http://" + originC}}},
	}
	l2 := LocationCfg{Name: "l2", Upstream: st.l2Upstream, Prefixes: []string{"/var"}, ProxyTimeout: st.l2Timeout}
	if st.l2Rewrite != "" {
		l2.Rewrites = []string{st.l2Rewrite}
	}
	if st.l2ReqH {
		l2.ReqHeaders = []string{"X-From:l2"}
	}
	if st.l2RespH {
		l2.RespHeaders = []string{"X-Loc:l2"}
	}
	if st.l2Query {
		l2.QueryStrings = []string{"src:l2"}
	}
	c.Locations = []LocationCfg{{Name: "l1", Upstream: "u1", Prefixes: []string{"/stable"}}, l2}
	if st.hasL3 {
		c.Locations = append(c.Locations, LocationCfg{Name: "l3", Upstream: "u3", Prefixes: []string{"/var/x"}, RespHeaders: []string{"X-Loc:l3"}})
	}
	s2Locs := []string{}
	for _, l := range st.s2Locs {
		if l == "l3" && !st.hasL3 {
			continue
		}
		s2Locs = append(s2Locs, l)
	}
	if len(s2Locs) == 0 {
		s2Locs = []string{"l2"}
	}
	comp := st.s2Compress
	if comp == "cp2" && !st.hasCp2 {
		comp = "cp"
	}
	cacheName := st.s2Cache
	if cacheName == "c3" && !st.hasC3 {
		cacheName = "c2"
	}
	c.Servers = []ServerCfg{
		{Addr: srvAddr, Locations: []string{"l1"}, Cache: "c1", Compress: "cp"},
		{Addr: srvAddr2, Locations: s2Locs, Cache: cacheName, Compress: comp, CompressMinLength: st.s2MinLen, CompressContentTypeFilter: st.s2Filter},
	}
	if st.hasS3 {
		c.Servers = append(c.Servers, ServerCfg{Addr: srvAddr3, Locations: []string{"l2"}, Cache: "c2", Compress: "cp"})
	}
	if st.hasS4 {
		c.Servers = append(c.Servers, ServerCfg{Addr: srvAddr4, Locations: []string{"l1"}, Cache: "c1", Compress: "cp"})
	}
	return c
}

const deadAddr = "10.0.9.9:7009"

func (st *c16State) u1Servers() []UpstreamSrv {
	if st.u1Dead {
		return []UpstreamSrv{{Addr: "http://" + deadAddr}, {Addr: "http://" + originA}}
	}
	return []UpstreamSrv{{Addr: "http://" + originA}}
}

func (st *c16State) u2Servers() []UpstreamSrv {
	list := []UpstreamSrv{{Addr: "http://" + st.u2Server}}
	if st.u2Second != "" && st.u2Second != st.u2Server {
		list = append(list, UpstreamSrv{Addr: "http://" + st.u2Second})
		if st.u2Swap {
			list[0], list[1] = list[1], list[0]
		}
		list[0].Backup = st.u2BackupFirst
	}
	return list
}

func (st *c16State) mutate(g *Gen) string {
	switch g.n(0, 15) {
	case 0:
		st.s2MinLen = pick(g, "", "", "100", "2kb", "0", "0kb")
		return "s2.minlen=" + st.s2MinLen
	case 1:
		st.s2Filter = pick(g, "", "", "json", "text|json")
		return "s2.filter=" + st.s2Filter
	case 2:
		st.s2Compress = pick(g, "cp", "cp2", "")
		if st.s2Compress == "cp2" {
			st.hasCp2 = true
		}
		return "s2.compress=" + st.s2Compress
	case 3:
		if st.hasC3 && g.p(0.4) {
			st.hasC3 = false
			st.s2Cache = "c2"
			return "c3=false"
		}
		st.s2Cache = pick(g, "c2", "c3")
		if st.s2Cache == "c3" {
			st.hasC3 = true
		}
		return "s2.cache=" + st.s2Cache
	case 4:
		st.hasL3 = !st.hasL3
		if st.hasL3 {
			st.s2Locs = []string{"l2", "l3"}
		}
		return fmt.Sprintf("l3=%v", st.hasL3)
	case 5:
		// set, unset, or the same pattern with another target
		st.l2Rewrite = pick(g, "", "/var/*:/$1", "/var/*:/$1", "/var/*:/v2/$1", "/var/*:/alt/$1")
		return fmt.Sprintf("l2.rewrite=%q", st.l2Rewrite)
	case 6:
		st.l2ReqH = !st.l2ReqH
		return fmt.Sprintf("l2.reqh=%v", st.l2ReqH)
	case 7:
		st.l2RespH = !st.l2RespH
		return fmt.Sprintf("l2.resph=%v", st.l2RespH)
	case 8:
		st.l2Query = !st.l2Query
		return fmt.Sprintf("l2.query=%v", st.l2Query)
	case 9:
		st.l2Upstream = pick(g, "u2", "u3")
		return "l2.upstream=" + st.l2Upstream
	case 10:
		switch g.n(0, 3) {
		case 0:
			st.u2AE = pick(g, "", "gzip", "br") // only the Accept-Encoding changes
		case 1:
			st.u2Second = pick(g, "", originB, originC)
			st.u2Swap = g.p(0.5)
			st.u2BackupFirst = g.p(0.5)
			st.u2Policy = "first"
		case 2:
			st.u2Swap = !st.u2Swap // only the order / the backup flag changes
			st.u2BackupFirst = g.p(0.5)
		default:
			st.u2Server = pick(g, originB, originC)
			st.u2AE = pick(g, "", "gzip", "br")
			st.u2Policy = pick(g, "first", "roundRobin", "")
		}
		return fmt.Sprintf("u2=%s+%s/swap=%v/backupFirst=%v/%s/%s", st.u2Server, st.u2Second, st.u2Swap, st.u2BackupFirst, st.u2AE, st.u2Policy)
	case 11:
		switch g.n(0, 3) {
		case 0:
			// both extra servers appear / disappear in one update
			st.hasS3 = !st.hasS3
			st.hasS4 = st.hasS3
		case 1:
			st.hasS4 = !st.hasS4
		default:
			st.hasS3 = !st.hasS3
		}
		return fmt.Sprintf("s3=%v,s4=%v", st.hasS3, st.hasS4)
	case 12:
		st.hasCp2 = !st.hasCp2
		return fmt.Sprintf("cp2=%v", st.hasCp2)
	case 13:
		st.hasBest = !st.hasBest
		return fmt.Sprintf("bestCompression-override=%v", st.hasBest)
	case 14:
		st.cpGzip = uint(pick(g, 1, 6, 9))
		st.cpKeys = pick(g, "both", "both", "gzip", "br")
		return fmt.Sprintf("cp.gzip=%d,cp.keys=%s", st.cpGzip, st.cpKeys)
	default:
		st.l2Timeout = pick(g, "", "3s")
		return "l2.timeout=" + st.l2Timeout
	}
}

func genC16(g *Gen) *Plan {
	p := &Plan{Profile: "C16", Seed: g.Seed, Policy: g.policy(), ClockMenuMs: []int{300, 1000}, ClockWeight: pick(g, 0.0, 0.02), MaxSteps: 8000}
	st := &c16State{s2MinLen: pick(g, "", "100", "2kb"), s2Filter: pick(g, "", "json"), s2Compress: "cp", s2Cache: "c2", s2Locs: []string{"l2"},
		l2Upstream: "u2", u2Server: originB, u2Policy: "first", cpGzip: 6, cpKeys: "both", c2Size: 1000, c1Size: pick(g, 1000, 100, 5000, 1001)}
	if g.p(0.4) {
		st.c2Store = storeURL
		st.c2Size = pick(g, 8, 8, 1000)
		p.InlineStore = true
		if st.c2Size == 8 {
			p.ShardMode = "one"
		}
	}
	for i := 0; i < g.n(0, 4); i++ {
		st.mutate(g)
	}
	st.u1Dead = g.p(0.25)
	p.Configs = []Config{st.config()}
	nconf := g.n(1, 4)
	var notes []string
	for i := 0; i < nconf; i++ {
		var ms []string
		for j := 0; j < g.n(1, 3); j++ {
			ms = append(ms, st.mutate(g))
		}
		notes = append(notes, strings.Join(ms, ","))
		p.Configs = append(p.Configs, st.config())
	}
	p.Notes = strings.Join(notes, " | ")
	p.Scripts = map[string][]Reply{}
	p.Default = Reply{Status: 200, Size: 300, Class: "fixed", CType: "text/plain", Header: [][2]string{{"Cache-Control", "max-age=600"}}}
	stableKeys := []string{"/stable/k0", "/stable/k1", "/stable/k2"}
	traffic := func(n int) {
		for i := 0; i < n; i++ {
			if g.p(0.6) {
				op := reqOp("GET", hostA, stableKeys[g.R.IntN(len(stableKeys))])
				op.Tag = "stable"
				p.Ops = append(p.Ops, op)
			} else if g.p(0.15) {
				// a request to a server that updates add and remove: it may be refused or cut short
				// by the removal, it must not hang (nor keep the removed server from going away)
				op := reqOp("GET", hostA, pick(g, "/var/a", "/stable/k0"))
				op.Addr = pick(g, srvAddr3, srvAddr4)
				op.Tag = "volatile"
				p.Ops = append(p.Ops, op)
			} else {
				op := reqOp("GET", hostA, pick(g, "/var/a", "/var/x/b", "/var/c?q=1"))
				op.Addr = srvAddr2
				if g.p(0.5) {
					op.Header = append(op.Header, [2]string{"Accept-Encoding", pick(g, "gzip", "br")})
				}
				p.Ops = append(p.Ops, op)
			}
		}
	}
	if st.u1Dead {
		// the first server of the stable upstream answers no connection attempt from now on
		p.Ops = append(p.Ops, Op{Kind: OpHealth, Server: deadAddr, Net: "blackhole"})
	}
	// warm the stable cache
	for _, k := range stableKeys {
		op := reqOp("GET", hostA, k)
		op.Tag = "stable"
		op.Barrier = true
		p.Ops = append(p.Ops, op)
	}
	for ci := 1; ci < len(p.Configs); ci++ {
		traffic(g.n(0, 3))
		p.Ops = append(p.Ops, Op{Kind: OpReload, Config: ci, Barrier: g.p(0.3)})
		traffic(g.n(1, 5))
		if g.p(0.3) {
			p.Ops = append(p.Ops, sleepOp(pick(g, 500, 2000, 11000), g.p(0.5)))
		}
	}
	// let removed servers finish their grace period, then check the stable cache
	// (Quiesce: the goroutines closing removed servers have run to completion - a starved
	// closer is a scheduling artefact, not a property of pike)
	q := sleepOp(11000, true)
	q.Quiesce = true
	p.Ops = append(p.Ops, q)
	if g.p(0.5) && len(p.Configs) > 1 {
		// the final configuration is applied once more (any later, unrelated update does that):
		// whatever could not be started earlier must be started now
		p.Ops = append(p.Ops, Op{Kind: OpReload, Config: len(p.Configs) - 1, Barrier: true, Quiesce: true}, Op{Kind: "noop", Barrier: true, Quiesce: true})
	}
	for _, k := range stableKeys {
		op := reqOp("GET", hostA, k)
		op.Tag = "stable-after"
		op.Barrier = true
		p.Ops = append(p.Ops, op)
	}
	for _, addr := range []string{srvAddr2, srvAddr3, srvAddr4} {
		op := reqOp("GET", hostA, "/var/liveness")
		op.Addr = addr
		op.Tag = "addr-probe"
		op.Barrier = true
		p.Ops = append(p.Ops, op)
	}
	// probe battery, identical before and after the fresh start
	type probe struct {
		addr, uri, ae string
	}
	var battery []probe
	nprobe := g.n(6, 14)
	for i := 0; i < nprobe; i++ {
		size := pick(g, 50, 101, 500, 1025, 1500, 2049, 3000)
		ctype := pick(g, "text/plain", "application/json", "image/png")
		base := pick(g, "/var/", "/var/", "/var/x/", "/stable/", "/other/")
		uri := fmt.Sprintf("%sprobe%d?n=%d", base, i, i)
		addr := pick(g, srvAddr, srvAddr2, srvAddr2, srvAddr2, srvAddr3, srvAddr4)
		battery = append(battery, probe{addr, uri, pick(g, "", "gzip", "br", "gzip, br")})
		r := Reply{Status: 200, Size: size, Class: "fixed", CType: ctype, Header: [][2]string{{"Cache-Control", "max-age=600"}}}
		if g.p(0.3) {
			// uncacheable: compressed per request with the server's own profile and levels
			r.Header = [][2]string{{"Cache-Control", "no-cache"}}
		}
		if g.p(0.2) {
			r.Enc = pick(g, "gzip", "br", "lz4")
		}
		p.Scripts["GET "+hostA+" "+uri] = []Reply{r, r, r, r}
	}
	emit := func(phase string) {
		for i, pb := range battery {
			for rep := 0; rep < 2; rep++ {
				if rep == 2 {
					break
				}
				op := reqOp("GET", hostA, pb.uri)
				op.Addr = pb.addr
				if pb.ae != "" {
					op.Header = append(op.Header, [2]string{"Accept-Encoding", pb.ae})
				}
				op.Tag = fmt.Sprintf("%s:%d:%d", phase, i, rep)
				op.Barrier = true
				p.Ops = append(p.Ops, op)
			}
		}
	}
	// third round: every probe once more after the whole battery (with a small LRU the entries
	// have been evicted meanwhile and come back from the store, if there is one)
	again := func(phase string) {
		for i, pb := range battery {
			op := reqOp("GET", hostA, pb.uri)
			op.Addr = pb.addr
			if pb.ae != "" {
				op.Header = append(op.Header, [2]string{"Accept-Encoding", pb.ae})
			}
			op.Tag = fmt.Sprintf("%s:%d:2", phase, i)
			op.Barrier = true
			p.Ops = append(p.Ops, op)
		}
	}
	emit("live")
	again("live")
	p.Ops = append(p.Ops, Op{Kind: OpStop, Barrier: true, Wipe: true})
	emit("fresh")
	again("fresh")
	return p
}

func obsVector(o *Outcome, v *View) string {
	r := v.R
	var b strings.Builder
	switch v.Kind {
	case "refused":
		return "refused"
	case "pending", "dead":
		return v.Kind
	}
	res := r.Res
	label := v.XStatus
	if label == "hitForPass" {
		// fetching vs hit-for-pass only depends on how much simulated time lies between two
		// requests of an uncacheable key: both are forwarded, that is what is compared
		label = "fetching"
	}
	fmt.Fprintf(&b, "status=%d label=%s enc=%q len=%d", res.Status, label, res.Header.Get("Content-Encoding"), len(res.Body))
	var hs []string
	for k, vs := range res.Header {
		if k == "X-Sim-Echo" || k == "Age" || k == "Content-Length" || k == "X-Status" {
			continue
		}
		hs = append(hs, k+"="+strings.Join(vs, ","))
	}
	sort.Strings(hs)
	fmt.Fprintf(&b, " hdr[%s]", strings.Join(hs, ";"))
	if res.Status >= 500 && v.Kind == "error" {
		fmt.Fprintf(&b, " body=%q", trunc(string(res.Body), 80))
	}
	for _, u := range v.OwnUps {
		c := u.Call
		var uh []string
		for k, vs := range c.Header {
			if k == "X-Forwarded-For" {
				continue
			}
			uh = append(uh, k+"="+strings.Join(vs, ","))
		}
		sort.Strings(uh)
		fmt.Fprintf(&b, " up[%s %s %s?%s hdr(%s)]", spreadTarget(&o.Plan.Configs[len(o.Plan.Configs)-1], c.Target), c.Method, c.Path, c.RawQuery, strings.Join(uh, ";"))
	}
	return b.String()
}

func oracleC16(o *Outcome) []Violation {
	var out []Violation
	views := o.Views()
	live := map[string]*View{}
	fresh := map[string]*View{}
	reloads := []*MiscRec{}
	for _, m := range o.Hist.Misc {
		if m.Kind == "reload" {
			reloads = append(reloads, m)
			o.Hist.Probes["reloads"]++
		}
	}
	final := &o.Plan.Configs[len(o.Plan.Configs)-1]
	hasServer := func(c *Config, addr string) bool {
		for _, s := range c.Servers {
			if s.Addr == addr {
				return true
			}
		}
		return false
	}
	for i := 1; i < len(o.Plan.Configs); i++ {
		a, b := &o.Plan.Configs[i-1], &o.Plan.Configs[i]
		if hasServer(a, srvAddr3) && !hasServer(b, srvAddr3) {
			o.Hist.Probes["server-removed"]++
			if hasServer(a, srvAddr4) && !hasServer(b, srvAddr4) {
				o.Hist.Probes["two-servers-removed-in-one-update"]++
			}
		}
		if !hasServer(a, srvAddr3) && hasServer(b, srvAddr3) {
			o.Hist.Probes["server-added"]++
		}
		if a.Servers[1].CompressMinLength != "" && b.Servers[1].CompressMinLength == "" || a.Servers[1].CompressContentTypeFilter != "" && b.Servers[1].CompressContentTypeFilter == "" {
			o.Hist.Probes["optional-field-unset"]++
		}
	}
	for _, v := range views {
		tag := v.R.Tag
		switch {
		case strings.HasPrefix(tag, "live:"):
			live[tag[5:]] = v
		case strings.HasPrefix(tag, "fresh:"):
			fresh[tag[6:]] = v
		case tag == "stable":
			// the unchanged server / location / upstream / cache keeps serving during updates
			during := false
			for _, m := range reloads {
				if v.R.InvokeSeq < m.ReturnSeq && (v.R.ReturnSeq < 0 || v.R.ReturnSeq > m.InvokeSeq) {
					during = true
				}
			}
			if during {
				o.Hist.Probes["stable-request-during-reload"]++
			}
			if v.Kind != "origin" && v.Kind != "pending" {
				out = append(out, violation("C16", "unchanged-server-failed", "request to an unchanged server failed while updates were applied",
					"client op %d %s @%s: %s status=%d (during a reload: %v)", v.R.Op, v.R.Key, v.R.Addr, v.Kind, statusOf(v), during))
			}
		case tag == "stable-after":
			// entries of the surviving cache are retained: fetched once at the start (lifetime 600s)
			if v.Kind == "origin" && len(v.OwnUps) == 0 {
				o.Hist.Probes["stable-entry-hit-after-reload"]++
			} else if v.Kind == "origin" {
				out = append(out, violation("C16", "surviving-cache-lost-entry", "cached entry of a surviving cache was lost by a configuration update",
					"client op %d %s was fetched at the start (lifetime 600s) but went upstream again after %d reloads", v.R.Op, v.R.Key, len(reloads)))
			} else {
				out = append(out, violation("C16", "unchanged-server-failed", "request to an unchanged server failed while updates were applied",
					"client op %d %s @%s after the updates: %s status=%d", v.R.Op, v.R.Key, v.R.Addr, v.Kind, statusOf(v)))
			}
		case tag == "addr-probe":
			configured := hasServer(final, v.R.Addr)
			if !configured {
				if v.Kind == "refused" {
					o.Hist.Probes["removed-server-refused-after-grace"]++
				} else if everConfigured(o.Plan, v.R.Addr) {
					out = append(out, violation("C16", "removed-server-still-serving", "removed server still accepts requests after the grace period",
						"client op %d @%s (not in the final configuration, removed more than 10s ago): %s status=%d", v.R.Op, v.R.Addr, v.Kind, statusOf(v)))
				}
			} else if v.Kind == "refused" {
				if readded(o.Plan, v.R.Addr) && !retriedAfterRelease(o, v.R.Addr) {
					out = append(out, violation("C16", "readded-server-not-listening", "server re-added on an address whose previous server had not finished its graceful close never listens",
						"client op %d @%s: the address was removed and configured again by a later update; the new server's listen failed (address still held by the closing one) and is not retried: connection refused although the final configuration has the server [%s]", v.R.Op, v.R.Addr, o.Plan.Notes))
				} else {
					out = append(out, violation("C16", "configured-server-not-listening", "server of the final configuration does not listen",
						"client op %d @%s is in the final configuration but the connection is refused", v.R.Op, v.R.Addr))
				}
			}
		}
	}
	// what the two instances agree on must also be what the final configuration says: package
	// level state that outlives the "fresh" start (a cache of compiled rules, say) would hide a
	// stale setting from the comparison. Checked for the one transformation with a documented
	// reading that needs no routing model: paths under /var/ (not /var/x, which l3 may claim)
	// on the servers that always carry l2 are rewritten by l2's rules and nothing else.
	var l2 *LocationCfg
	for i := range final.Locations {
		if final.Locations[i].Name == "l2" {
			l2 = &final.Locations[i]
		}
	}
	for _, v := range views {
		if l2 == nil || !(strings.HasPrefix(v.R.Tag, "live:") || strings.HasPrefix(v.R.Tag, "fresh:")) || (v.R.Addr != srvAddr2 && v.R.Addr != srvAddr3) {
			continue
		}
		cu, err := url.ParseRequestURI(v.R.URI)
		if err != nil || !strings.HasPrefix(cu.Path, "/var/") || strings.HasPrefix(cu.Path, "/var/x") {
			continue
		}
		for _, u := range v.OwnUps {
			o.Hist.Probes["rewrite-of-final-configuration-checked"]++
			if want := refRewrite(l2.Rewrites, cu.EscapedPath()); u.Call.Path != want {
				out = append(out, violation("C16", "stale-rewrite", "path rewritten by a rule that is not in the final configuration",
					"probe %s %s @%s after configuration history [%s]: the origin saw path %q, the final configuration's rules %v give %q", v.R.Tag, v.R.URI, v.R.Addr, o.Plan.Notes, u.Call.Path, l2.Rewrites, want))
			}
		}
	}
	ids := make([]string, 0, len(live))
	for id := range live {
		ids = append(ids, id)
	}
	sort.Strings(ids)
	for _, id := range ids {
		a, b := live[id], fresh[id]
		if b == nil {
			continue
		}
		// every probe is sent twice in either phase; the four answers belong together (a plan that
		// the minimiser has thinned out may lack one: nothing is compared then)
		if base := strings.SplitN(id, ":", 2)[0]; live[base+":1"] == nil || live[base+":2"] == nil || fresh[base+":1"] == nil || fresh[base+":2"] == nil {
			continue
		}
		if a.Kind == "refused" && readded(o.Plan, a.R.Addr) && !retriedAfterRelease(o, a.R.Addr) {
			continue // reported once as readded-server-not-listening
		}
		timedOut := false
		for _, v := range []*View{a, b} {
			for _, u := range v.OwnUps {
				if u.TimedOut {
					timedOut = true
				}
			}
		}
		if timedOut {
			// the location's proxy timeout fired while the reply was withheld by the scheduler and the
			// clock moved (clock actions, a health check of a black-holed server): the scheduler's
			// doing, in whichever of the two phases it happened
			o.Hist.Probes["probe-pair-skipped-after-proxy-timeout"]++
			continue
		}
		o.Hist.Probes["probe-pairs-compared"]++
		va, vb := obsVector(o, a), obsVector(o, b)
		if va != vb {
			out = append(out, violation("C16", "live-differs-from-fresh", "live-updated instance behaves differently from a fresh instance with the final configuration",
				"probe %s %s @%s (Accept-Encoding %q) after configuration history [%s]:\n    live : %s\n    fresh: %s", id, a.R.URI, a.R.Addr, reqHeaderGet(a.R.ReqHeader, "Accept-Encoding"), o.Plan.Notes, va, vb))
		}
	}
	return out
}

func statusOf(v *View) int {
	if v.R.Res == nil {
		return 0
	}
	return v.R.Res.Status
}

func everConfigured(p *Plan, addr string) bool {
	for _, c := range p.Configs {
		for _, s := range c.Servers {
			if s.Addr == addr {
				return true
			}
		}
	}
	return false
}

// readded: the address was configured, then absent, then configured again.
func readded(p *Plan, addr string) bool {
	state := 0
	for _, c := range p.Configs {
		has := false
		for _, s := range c.Servers {
			if s.Addr == addr {
				has = true
			}
		}
		switch {
		case state == 0 && has:
			state = 1
		case state == 1 && !has:
			state = 2
		case state == 2 && has:
			return true
		}
	}
	return false
}

// retriedAfterRelease: after the closing server finally released the address, another
// configuration update was applied - pike starts every configured server that is not
// listening on each update, so from then on the address must be served.
func retriedAfterRelease(o *Outcome, addr string) bool {
	released := -1
	for _, ev := range o.Hist.Events {
		if ev.Kind == "listener-closed" && ev.Text == addr {
			released = ev.Seq
		}
	}
	if released < 0 {
		return false
	}
	for _, m := range o.Hist.Misc {
		if m.Kind == "reload" && m.InvokeSeq > released && m.ReturnSeq > 0 {
			return true
		}
	}
	return false
}

// spreadTarget: under a spreading policy (round robin / random) any server of the upstream
// may receive a given request; which one depends on how many requests came before.
func spreadTarget(cfg *Config, target string) string {
	for _, u := range cfg.Upstreams {
		if len(u.Servers) < 2 || u.Policy == "first" || u.Policy == "leastconn" {
			continue
		}
		var all []string
		in := false
		for _, sv := range u.Servers {
			a := strings.TrimPrefix(sv.Addr, "http://")
			if sv.Backup {
				continue
			}
			all = append(all, a)
			if a == target {
				in = true
			}
		}
		if in && len(all) > 1 {
			sort.Strings(all)
			return "any of " + strings.Join(all, ",")
		}
	}
	return target
}
