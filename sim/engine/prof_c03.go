package engine

import (
	"fmt"
	"strconv"
	"strings"
)

// ---------------------------------------------------------------------------------
// C03 - only shareable responses are stored; labels are truthful

func init() {
	register(&Profile{
		Name:     "C03",
		Property: "C03",
		Gen:      func(g *Gen) *Plan { return swarm(g, genC03(g), 0.2, 0) },
		Oracles:  []func(o *Outcome) []Violation{oracleC03, livenessOracle("C03"), respOracle("C03", "wrong-body", "wrong-key", "unattributable-response")},
		NonTrivial: func(o *Outcome) bool {
			return o.Hist.Probes["must-not-store-reply-followed-by-request"] > 0
		},
		Rule:         "seeded plans: per key one fetch (any method) with 0-2 concurrent identical requests, a drawn delay, then 1-3 identical requests; the origin's header set comes from a grammar over Cache-Control directives (any order, casing, spacing, 1-3 header lines, unknown tokens), max-age/s-maxage in {0,1,small,overflow}, Age in {absent, valid, > max-age, negative, non-numeric, huge}, Set-Cookie, any status; a quarter of the plans persist the cache through a slow store; in 15% of plans the location adds response headers of its own (a permissive Cache-Control included), which must not lift what the origin forbids. The header language is an input space: sampled by the seeded generator and checked through time and state (store -> reuse), not enumerated. in a fifth of the plans a tenth of the clients disconnect at a scheduler-chosen step (fault client-disconnect). non-trivial = a reply the model says must not be stored was followed by another request of its key; distinct = distinct history hash",
		ExpectProbes: []string{"must-not-store-reply-followed-by-request", "must-not:set-cookie", "must-not:no-cache", "must-not:no-store", "must-not:private", "must-not:no cache-control", "must-not:lifetime<=0", "must-not:method", "must-not:huge Age", "location-adds-cache-control", "label-hit-checked", "label-other-checked", "uppercase-directive"},
	})
}

func randCase(g *Gen, s string) string {
	switch g.n(0, 3) {
	case 0:
		return s
	case 1:
		return strings.ToUpper(s)
	case 2:
		return strings.ToUpper(s[:1]) + s[1:]
	}
	b := []byte(s)
	for i := range b {
		if g.p(0.5) && b[i] >= 'a' && b[i] <= 'z' {
			b[i] -= 32
		}
	}
	return string(b)
}

func genHeaderSet(g *Gen) (hdr [][2]string, status int) {
	var dirs []string
	num := func() string {
		return pick(g, "0", "1", strconv.Itoa(g.n(2, 5)), strconv.Itoa(g.n(2, 5)), strconv.Itoa(g.n(30, 600)), "99999999999999999999", "2147483648")
	}
	// lifetime directives
	if g.p(0.8) {
		dirs = append(dirs, randCaseKeepLower(g, "max-age")+"="+num())
	}
	if g.p(0.35) {
		dirs = append(dirs, randCaseKeepLower(g, "s-maxage")+"="+num())
	}
	// restricting directives
	if g.p(0.35) {
		dirs = append(dirs, randCase(g, pick(g, "no-cache", "no-store", "private")))
	}
	if g.p(0.3) {
		dirs = append(dirs, pick(g, "public", "must-revalidate", "immutable", "stale-while-revalidate=30", "proxy-revalidate", "no-transform"))
	}
	g.R.Shuffle(len(dirs), func(i, j int) { dirs[i], dirs[j] = dirs[j], dirs[i] })
	if len(dirs) > 0 && g.p(0.92) {
		lines := 1
		if len(dirs) > 1 {
			lines = g.n(1, min(3, len(dirs)))
		}
		per := (len(dirs) + lines - 1) / lines
		for i := 0; i < len(dirs); i += per {
			j := min(i+per, len(dirs))
			sep := pick(g, ", ", ",", " , ", ",  ")
			hdr = append(hdr, [2]string{"Cache-Control", strings.Join(dirs[i:j], sep)})
		}
	}
	if g.p(0.15) {
		hdr = append(hdr, [2]string{"Set-Cookie", "sid=" + strconv.Itoa(g.n(1, 999)) + "; Path=/"})
	}
	if g.p(0.3) {
		hdr = append(hdr, [2]string{"Age", pick(g, "0", "1", strconv.Itoa(g.n(1, 4)), "700", "-5", "abc", "99999999999999999999")})
	}
	if g.p(0.2) {
		hdr = append(hdr, [2]string{"Expires", "Thu, 01 Dec 2033 16:00:00 GMT"})
	}
	if g.p(0.06) {
		// the origin is a cache tier itself and labels its answers the same way
		hdr = append(hdr, [2]string{"X-Status", pick(g, "hit", "fetching", "hitForPass")})
	}
	status = pick(g, 200, 200, 200, 200, 201, 301, 404, 410, 500, 503)
	return
}

// max-age / s-maxage names: lower case most of the time (pike reads the value with a
// case-sensitive pattern; a differently cased name only makes pike store less)
func randCaseKeepLower(g *Gen, s string) string {
	if g.p(0.85) {
		return s
	}
	return randCase(g, s)
}

func genC03(g *Gen) *Plan {
	p := &Plan{Profile: "C03", Seed: g.Seed, Policy: g.policy(), ClockMenuMs: []int{200, 1000}, ClockWeight: pick(g, 0.0, 0.05), MaxSteps: 1500}
	p.Configs = []Config{baseConfig(1000, "1s", "")}
	if g.p(0.15) {
		// the location adds response headers of its own, caching directives included: what
		// the origin forbids stays forbidden
		p.Configs[0].Locations[0].RespHeaders = []string{pick(g, "Cache-Control:public, max-age=30", "Cache-Control:max-age=5", "X-Added:1", "Cache-Control:public")}
	}
	if g.p(0.25) {
		// persisted, through a store that takes its time: a response that must not be shared stays
		// with its requester however long the bookkeeping of its key takes
		p.Configs[0].Caches[0].Store = storeURL
		p.StoreFaults = storeFaults(g, 100, 0.5, "delay")
	}
	p.Scripts = map[string][]Reply{}
	p.Default = Reply{Status: 200, Size: 20}
	nkeys := g.n(1, 4)
	for i := 0; i < nkeys; i++ {
		method := pick(g, "GET", "GET", "GET", "GET", "HEAD", "POST", "PUT", "DELETE", "PATCH", "OPTIONS")
		uri := fmt.Sprintf("/h%d?v=%d", i, g.n(0, 9))
		key := method + " " + hostA + " " + uri
		var s []Reply
		for j := 0; j < 4; j++ {
			hdr, status := genHeaderSet(g)
			s = append(s, Reply{Status: status, Header: hdr, Size: g.n(0, 300), Class: "text"})
		}
		p.Scripts[key] = s
		mk := func() Op {
			op := reqOp(method, hostA, uri)
			if method != "GET" && method != "HEAD" && method != "OPTIONS" && method != "DELETE" {
				op.Body = fmt.Sprintf("payload-%d", g.n(0, 999))
			}
			return op
		}
		first := mk()
		first.Barrier = g.p(0.6)
		p.Ops = append(p.Ops, first)
		for j := 0; j < g.n(0, 2); j++ {
			p.Ops = append(p.Ops, mk())
		}
		rounds := g.n(1, 2)
		for rd := 0; rd < rounds; rd++ {
			p.Ops = append(p.Ops, sleepOp(pick(g, 0, 300, 1000, 2100, 3000), g.p(0.7)))
			for j := 0; j < g.n(1, 3); j++ {
				p.Ops = append(p.Ops, mk())
			}
		}
	}
	return p
}

func oracleC03(o *Outcome) []Violation {
	var out []Violation
	views := o.Views()
	// probes: a must-not reply followed by another request of the key
	for _, u := range o.Hist.Ups {
		if u.Req < 0 {
			continue
		}
		if u.Verdict.MustNot {
			o.Hist.Probes["must-not:"+u.Verdict.Why]++
			if len(o.Plan.Configs[0].Locations[0].RespHeaders) > 0 && strings.HasPrefix(o.Plan.Configs[0].Locations[0].RespHeaders[0], "Cache-Control") {
				o.Hist.Probes["location-adds-cache-control"]++
			}
			for _, r := range o.Hist.Reqs {
				if r.Key == u.Key && r.InvokeSeq > u.ReplySeq && u.ReplySeq > 0 {
					o.Hist.Probes["must-not-store-reply-followed-by-request"]++
					break
				}
			}
			for _, kv := range u.Reply.Header {
				if kv[0] == "Cache-Control" && kv[1] != strings.ToLower(kv[1]) && (strings.Contains(strings.ToLower(kv[1]), "no-") || strings.Contains(strings.ToLower(kv[1]), "private")) {
					o.Hist.Probes["uppercase-directive"]++
				}
			}
		}
	}
	for _, v := range views {
		r := v.R
		if v.Kind != "origin" {
			continue
		}
		u := v.Up
		if u.Req < 0 {
			continue
		}
		f := o.Hist.Reqs[u.Req]
		if f != r && u.Key == r.Key {
			// the reply was reused for a request that did not fetch it
			if u.Verdict.MustNot {
				out = append(out, violation("C03", "unshareable-reused", "reply that must not be stored was served to another request",
					"client op %d %s received origin reply #%d (fetched by op %d; headers [%s]; status %d) although the model says it must not be stored: %s",
					r.Op, r.Key, u.Serial, f.Op, hdrString(u.Reply.Header), u.Call.status, u.Verdict.Why))
			}
		}
		label := v.XStatus
		isGetHead := r.Method == "GET" || r.Method == "HEAD"
		if label == "hit" {
			o.Hist.Probes["label-hit-checked"]++
			if len(v.OwnUps) > 0 {
				out = append(out, violation("C03", "hit-label-with-upstream-contact", "response labelled hit involved an upstream contact",
					"client op %d %s labelled hit but sent upstream request #%d", r.Op, r.Key, v.OwnUps[0].Serial))
			}
		} else {
			o.Hist.Probes["label-other-checked"]++
			if len(v.OwnUps) != 1 {
				out = append(out, violation("C03", "label-without-one-contact", "successful response not labelled hit did not involve exactly one upstream contact",
					"client op %d %s labelled %q involved %d upstream contacts", r.Op, r.Key, label, len(v.OwnUps)))
			}
		}
		if !isGetHead {
			if label != "passed" {
				out = append(out, violation("C03", "non-get-not-passed", "non GET/HEAD request not labelled passed", "client op %d %s labelled %q", r.Op, r.Key, label))
			}
			if len(v.OwnUps) != 1 {
				out = append(out, violation("C03", "non-get-not-forwarded-once", "non GET/HEAD request not forwarded exactly once", "client op %d %s: %d upstream contacts", r.Op, r.Key, len(v.OwnUps)))
			}
		}
	}
	return out
}
