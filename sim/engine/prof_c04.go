package engine

import (
	"fmt"
	"strconv"
)

// ---------------------------------------------------------------------------------
// C04 - never served past the lifetime

func init() {
	register(&Profile{
		Name:     "C04",
		Property: "C04",
		Gen:      func(g *Gen) *Plan { return swarm(g, genC04(g), 0.25, 0) },
		Oracles:  []func(o *Outcome) []Violation{oracleC04, livenessOracle("C04"), respOracle("C04", "wrong-body", "wrong-key", "unattributable-response")},
		NonTrivial: func(o *Outcome) bool {
			return o.Hist.Probes["hit-served"] > 0 && o.Hist.Probes["refetch-after-expiry"] > 0
		},
		Rule:         "seeded plans on 1-2 keys: lifetimes 1-6s (and one large) given by max-age, s-maxage or an s-maxage on a second Cache-Control line, upstream Age absent or valid, a weak ETag that stays the same across epochs on a third of the keys, 2-4 refetch epochs, requests placed by sleep operations at expiry-1s, the expiry second +-50ms, expiry+1s; half of the runs strictly sequential with the clock moving only between requests (exact oracle), half concurrent with clock actions inside requests (interval oracle); some refetch epochs are uncacheable or fail; a third of the runs have a slow simulated store that keeps the entry lock held while the clock moves. in a quarter of the plans a tenth of the clients disconnect at a scheduler-chosen step (fault client-disconnect). non-trivial = at least one hit and one refetch after expiry; distinct = distinct history hash",
		ExpectProbes: []string{"hit-served", "refetch-after-expiry", "hit-in-expiry-second", "request-in-second-after-expiry", "age-checked"},
	})
}

func genC04(g *Gen) *Plan {
	p := &Plan{Profile: "C04", Seed: g.Seed, Policy: g.policy(), MaxSteps: 1500}
	store := ""
	if g.p(0.3) {
		// a slow store keeps the entry lock held (saveToStore runs under it) while the clock moves
		store = storeURL
		p.StoreFaults = make([]string, 120)
		for i := range p.StoreFaults {
			if g.p(0.4) {
				p.StoreFaults[i] = pick(g, "delay:2", "delay:4", "delay:6")
			}
		}
	}
	size := 1000
	if store != "" && g.p(0.5) {
		// evict + reload through a store that enforces its TTL exactly, late or never:
		// pike's own expiry check must hold for what it reads back
		size = 8
		p.ShardMode = "one"
		p.StoreTTL = pick(g, "exact", "late", "never")
	}
	p.Configs = []Config{baseConfig(size, "1s", store)}
	seq := g.p(0.5)
	if seq {
		p.Sequential = true
		p.Policy = "uniform"
	} else {
		p.ClockMenuMs = g.clockMenu()
		p.ClockWeight = pick(g, 0.0, 0.05, 0.15)
	}
	keys := []string{"/t0"}
	if g.p(0.3) || size == 8 {
		keys = append(keys, "/t1")
	}
	p.Scripts = map[string][]Reply{}
	epochs := g.n(2, 4)
	type life struct{ T int }
	lifes := map[string][]int{}
	for _, k := range keys {
		var s []Reply
		sameTag := g.p(0.3)
		for i := 0; i < epochs+2; i++ {
			T := g.n(1, 6)
			if g.p(0.1) {
				T = 3600
			}
			r := cacheable(T, g.n(10, 200))
			switch g.n(0, 9) {
			case 0, 1, 2:
				r = cacheableS(T, g.n(10, 200))
			case 3:
				// the directives arrive on several Cache-Control lines; the deciding one is not the first
				r.Header = [][2]string{{"Cache-Control", "public, max-age=" + strconv.Itoa(T+30)}, {"Cache-Control", "s-maxage=" + strconv.Itoa(T)}}
			}
			if sameTag {
				// a validator that does not change with the body (weak ETag): every epoch's body is its own
				r.ETag = `W/"k"`
			}
			eff := T
			if g.p(0.3) && T > 1 {
				age := g.n(1, T-1)
				r.Header = append(r.Header, [2]string{"Age", strconv.Itoa(age)})
				eff = T - age
			}
			lifes[k] = append(lifes[k], eff)
			if i > 0 && g.p(0.15) {
				// an epoch whose refetch is not cacheable (or fails): nothing older may resurface
				r = uncacheable(g, g.n(10, 200))
				if g.p(0.3) {
					r.Fault = "err"
				}
			}
			s = append(s, r)
		}
		p.Scripts["GET "+hostA+" "+k] = s
	}
	p.Default = cacheable(2, 50)
	// start away from a second boundary by a drawn offset
	p.Ops = append(p.Ops, sleepOp(pick(g, 0, 50, 500, 950, 999), true))
	for ep := 0; ep < epochs; ep++ {
		for _, k := range keys {
			T := lifes[k][ep%len(lifes[k])]
			if T > 100 {
				T = 3
			}
			// fetch (or hit), then probes around the expiry
			p.Ops = append(p.Ops, barrierReq(reqOp("GET", hostA, k), !seq && g.p(0.5)))
			if !seq {
				for i := 0; i < g.n(0, 3); i++ {
					p.Ops = append(p.Ops, reqOp("GET", hostA, k))
				}
			}
			offsets := []int{}
			switch g.n(0, 3) {
			case 0:
				offsets = []int{(T - 1) * 1000, 1000, 1000}
			case 1:
				offsets = []int{T*1000 - 50, 100, 900}
			case 2:
				offsets = []int{T * 1000, 950, 100}
			default:
				offsets = []int{g.n(0, T*1000+1500), g.n(0, 1500)}
			}
			for _, off := range offsets {
				if off < 0 {
					off = 0
				}
				p.Ops = append(p.Ops, sleepOp(off, seq || g.p(0.7)))
				n := 1
				if !seq {
					n = g.n(1, 3)
				}
				for i := 0; i < n; i++ {
					p.Ops = append(p.Ops, reqOp("GET", hostA, k))
				}
			}
		}
	}
	return p
}

func barrierReq(op Op, barrier bool) Op {
	op.Barrier = barrier
	return op
}

func oracleC04(o *Outcome) []Violation {
	var out []Violation
	views := o.Views()
	exact := o.Plan.Sequential && o.Plan.ClockWeight == 0
	for _, v := range views {
		if v.Kind != "origin" || len(v.OwnUps) > 0 {
			if v.Kind == "origin" && len(v.OwnUps) > 0 {
				// went upstream: was it after an expiry?
				for _, u0 := range o.Hist.Ups {
					if u0.Key == v.R.Key && u0.Shareable && u0.ArriveSeq < v.OwnUps[0].ArriveSeq {
						o.Hist.Probes["refetch-after-expiry"]++
						break
					}
				}
			}
			continue
		}
		u := v.Up
		r := v.R
		if u.Req < 0 || u.Key != r.Key {
			continue // wrong key is C06's finding
		}
		f := o.Hist.Reqs[u.Req]
		if f == r {
			continue
		}
		o.Hist.Probes["hit-served"]++
		if u.Verdict.Ambiguous {
			continue
		}
		if !u.Shareable {
			continue // storing an unshareable reply is C03's finding
		}
		T := int64(u.Lifetime)
		if f.ReturnSeq >= 0 {
			latestCreated := secFloor(f.ReturnT)
			if secFloor(r.InvokeT) > latestCreated+T {
				out = append(out, violation("C04", "stale-hit", "response served from cache after its lifetime",
					"client op %d %s invoked at t=%dms was answered from reply #%d (lifetime %ds, obtained between t=%dms and t=%dms) without contacting the upstream",
					r.Op, r.Key, r.InvokeT, u.Serial, T, u.ReplyT, f.ReturnT))
				continue
			}
			if secFloor(r.InvokeT) == latestCreated+T {
				o.Hist.Probes["hit-in-expiry-second"]++
			}
		}
		// stale replay: a newer cacheable fetch of the key was installed before this request began
		// (with an LRU smaller than the working set two fetches of one key can run on two entry
		// objects and be persisted in either order: asserted only when nothing is evicted)
		for _, u2 := range o.Hist.Ups {
			if o.Plan.Configs[0].Caches[0].Size < 1000 {
				break
			}
			if u2.Key != r.Key || u2.Serial <= u.Serial || !u2.Shareable || u2.Verdict.Ambiguous || u2.Req < 0 {
				continue
			}
			f2 := o.Hist.Reqs[u2.Req]
			if u2.ArriveSeq > u.ReplySeq && f2.ReturnSeq >= 0 && f2.ReturnSeq < r.InvokeSeq && fetcherStored(o, u2) && f2.Res.Header.Get("X-Status") == "fetching" {
				out = append(out, violation("C04", "stale-replay", "older response served after a newer one replaced it",
					"client op %d %s (invoked seq %d) was answered from reply #%d although the fetch of reply #%d had completed at seq %d", r.Op, r.Key, r.InvokeSeq, u.Serial, u2.Serial, f2.ReturnSeq))
				break
			}
		}
		// Age header
		if f.ReturnSeq >= 0 && u.Call.header.Get("Age") == "" {
			age := v.Age
			if age < 0 {
				age = 0
			}
			lo := secFloor(r.InvokeT) - secFloor(f.ReturnT)
			hi := secFloor(r.ReturnT) - secFloor(u.ReplyT)
			if lo < 0 {
				lo = 0
			}
			o.Hist.Probes["age-checked"]++
			if (int64(age) < lo || int64(age) > hi) && ageOfNewerEpoch(o, v, int64(age)) {
				out = append(out, violation("C04", "age-of-newer-epoch", "Age computed from a newer fetch of the key than the response served (entry refreshed between lookup and Age computation)",
					"client op %d %s: Age %d on reply #%d (obtained t=%dms..%dms, served t=%dms..%dms, possible ages %d..%d) matches the creation time of a later fetch of the key",
					r.Op, r.Key, age, u.Serial, u.ReplyT, f.ReturnT, r.InvokeT, r.ReturnT, lo, hi))
			} else if int64(age) < lo || int64(age) > hi {
				out = append(out, violation("C04", "wrong-age", "Age header inconsistent with the time since the response was obtained",
					"client op %d %s: Age %d but the response (reply #%d) was obtained between t=%dms and t=%dms and the hit was served between t=%dms and t=%dms (possible ages %d..%d)",
					r.Op, r.Key, age, u.Serial, u.ReplyT, f.ReturnT, r.InvokeT, r.ReturnT, lo, hi))
			}
			// a coalesced request is answered at the moment the fetcher hands the response over;
			// it may resume (and stamp its Age) arbitrarily later - C01 requires it to be answered
			// from that fetch nevertheless. For a hit found by the request's own lookup the Age is
			// taken in the same atomic step as the lookup and must respect the lifetime.
			if int64(age) > T && (exact || r.ReleasedBy == -1) {
				out = append(out, violation("C04", "age-exceeds-lifetime", "Age header exceeds the lifetime", "client op %d %s: Age %d > lifetime %d", r.Op, r.Key, age, T))
			}
		}
	}
	// exact histories: a request in the second after the (latest possible) expiry goes upstream
	if exact {
		for _, v := range views {
			r := v.R
			if v.Kind != "origin" {
				continue
			}
			if len(v.OwnUps) > 0 {
				continue
			}
			u := v.Up
			if u.Req < 0 || !u.Shareable {
				continue
			}
			f := o.Hist.Reqs[u.Req]
			if f.ReturnSeq >= 0 && secFloor(r.InvokeT) == secFloor(f.ReturnT)+int64(u.Lifetime)+1 {
				o.Hist.Probes["request-in-second-after-expiry"]++
			}
		}
		for _, v := range views {
			if len(v.OwnUps) > 0 && v.Kind == "origin" {
				// find the previous cacheable reply of the key
				var prev *UpRec
				for _, u0 := range o.Hist.Ups {
					if u0.Key == v.R.Key && u0.Shareable && u0.ReplySeq >= 0 && u0.ReplySeq < v.R.InvokeSeq {
						prev = u0
					}
				}
				if prev != nil && prev.Req >= 0 {
					f := o.Hist.Reqs[prev.Req]
					if f.ReturnSeq >= 0 && secFloor(v.R.InvokeT) == secFloor(f.ReturnT)+int64(prev.Lifetime)+1 {
						o.Hist.Probes["request-in-second-after-expiry"]++
					}
				}
			}
		}
	}
	_ = fmt.Sprint
	return out
}

// ageOfNewerEpoch: the Age value is what pike would compute from the creation time of
// a later cacheable fetch of the same key that completed while this request was in progress.
func ageOfNewerEpoch(o *Outcome, v *View, age int64) bool {
	r := v.R
	for _, u2 := range o.Hist.Ups {
		if u2.Key != r.Key || u2.Serial <= v.Up.Serial || !u2.Shareable || u2.Req < 0 || !u2.Answered {
			continue
		}
		f2 := o.Hist.Reqs[u2.Req]
		if u2.ReplySeq > r.ReturnSeq {
			continue
		}
		end := r.ReturnT
		if f2.ReturnSeq >= 0 && f2.ReturnT < end {
			end = f2.ReturnT
		}
		lo := secFloor(r.InvokeT) - secFloor(end)
		if lo < 0 {
			lo = 0
		}
		hi := secFloor(r.ReturnT) - secFloor(u2.ReplyT)
		if age >= lo && age <= hi {
			return true
		}
	}
	return false
}
