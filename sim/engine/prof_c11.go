package engine

import (
	"fmt"
	"strings"

	pikecache "github.com/vicanso/pike/cache"
)

// ---------------------------------------------------------------------------------
// C11 - residency bound and LRU order

func init() {
	register(&Profile{
		Name:     "C11",
		Property: "C11",
		Gen:      genC11,
		Arm:      armC11,
		Oracles:  []func(o *Outcome) []Violation{respOracle("C11", "wrong-key", "wrong-body", "unattributable-response"), servedOracle("C11"), livenessOracle("C11")},
		NonTrivial: func(o *Outcome) bool {
			return o.Hist.Probes["evictions"] > 0
		},
		Rule:         "every run uses one cache size S from [1..40, 63,64,65,127,128,1000,1023,1024,1025,4096] (S is drawn from that list by the run seed; quick tier mostly replaces the large sizes by small ones), key population > S (2S..10S for small S), access sequences several times S, sequential (exact LRU-order model per shard) or from concurrent clients (bound only), store on/off; 30% of the runs mix in administrative purges of probably-resident keys, 20% re-apply the configuration with other sizes, 20% run two caches behind two servers, drop both in one reconfiguration and configure both names anew with smaller sizes. Online invariant after every step, for every configured cache: resident entries <= the size in force (a cache that stays configured keeps the largest size configured so far, a cache configured anew has its new size); on every eviction in sequential runs the dropped key is the least recently used of its shard in the reference recency list. non-trivial = at least one eviction occurred; distinct = distinct history hash",
		ExpectProbes: []string{"evictions", "lru-order-checked", "size<8", "size>=1024", "resident==size", "purged-resident-key", "cache-configured-anew"},
	})
}

var c11Sizes = func() []int {
	var s []int
	for i := 1; i <= 40; i++ {
		s = append(s, i)
	}
	return append(s, 63, 64, 65, 127, 128, 1000, 1023, 1024, 1025, 4096)
}()

func genC11(g *Gen) *Plan {
	// the size is a function of the seed so that a replay file is self-contained
	S := c11Sizes[int(g.Seed%uint64(len(c11Sizes)))]
	if g.Tier != "thorough" && S > 200 && g.p(0.6) {
		S = c11Sizes[g.n(0, 44)]
	}
	p := &Plan{Profile: "C11", Seed: g.Seed, Policy: "uniform", MaxSteps: 400000}
	store := ""
	if g.p(0.3) {
		store = storeURL
		p.InlineStore = true
	}
	p.Configs = []Config{baseConfig(S, "1s", store)}
	p.Sequential = g.p(0.7)
	p.ShardMode = pick(g, "", "", "two")
	pop := 0
	nreq := 0
	switch {
	case S <= 40:
		pop = g.n(2*S, 10*S) + 8
		nreq = g.n(5*S, 30*S) + 40
	case S <= 128:
		pop = g.n(S+1, 3*S)
		nreq = g.n(3*S, 6*S)
	default:
		pop = S + g.n(1, 300)
		nreq = pop + g.n(100, 600)
	}
	// a fifth of the runs re-apply the configuration with other sizes for the same cache while
	// traffic continues (cache size is documented as restart-only: whichever size is in force,
	// residency must stay within the largest size ever configured)
	multi := false
	switch x := g.n(0, 9); {
	case x < 2 && S <= 128:
		for i := 0; i < g.n(1, 3); i++ {
			c := baseConfig(pick(g, 1, 3, 5, 7, 8, 20, 100, 127, 2000), "1s", store)
			p.Configs = append(p.Configs, c)
		}
	case x < 4 && S <= 128 && store == "":
		// two caches behind two servers; a reconfiguration drops both at once (the servers move
		// to a third cache), a later one configures the two names again with smaller sizes:
		// a cache that was removed and configured anew is a new cache, bounded by its new size
		multi = true
		c0 := &p.Configs[0]
		c0.Caches = append(c0.Caches, CacheCfg{Name: "c2", Size: pick(g, S, S+3, max(1, S/2)), HitForPass: "1s"})
		c0.Servers = append(c0.Servers, ServerCfg{Addr: srvAddr2, Locations: []string{"l1"}, Cache: "c2"})
		c1 := baseConfig(1, "1s", "")
		c1.Caches = []CacheCfg{{Name: "cx", Size: pick(g, 1, 9, 30), HitForPass: "1s"}}
		c1.Servers = []ServerCfg{{Addr: srvAddr, Locations: []string{"l1"}, Cache: "cx"}, {Addr: srvAddr2, Locations: []string{"l1"}, Cache: "cx"}}
		c2 := baseConfig(1, "1s", "")
		c2.Caches = []CacheCfg{{Name: "c1", Size: max(1, S/pick(g, 2, 3, 8)), HitForPass: "1s"}, {Name: "c2", Size: pick(g, 1, 2, max(1, S/4)), HitForPass: "1s"}}
		c2.Servers = c0.Servers
		p.Configs = append(p.Configs, c1, c2)
	}
	purges := g.p(0.3)
	p.Default = cacheable(3600, 12)
	p.Notes = fmt.Sprintf("size=%d population=%d requests=%d", S, pop, nreq)
	// access pattern: mixture of a sweep, a hot set and uniform picks
	hot := max(1, pop/5)
	for i := 0; i < nreq; i++ {
		var k int
		switch x := g.n(0, 9); {
		case i < pop && S > 128:
			k = i // fill phase for large sizes
		case x < 4:
			k = g.R.IntN(pop)
		case x < 8:
			k = g.R.IntN(hot)
		default:
			k = i % pop
		}
		op := reqOp("GET", hostA, fmt.Sprintf("/n%d", k))
		if multi && g.p(0.45) {
			op = reqOp("GET", hostA, fmt.Sprintf("/q%d", k))
			op.Addr = srvAddr2
		}
		if !p.Sequential && g.p(0.25) {
			op.Barrier = true
		}
		p.Ops = append(p.Ops, op)
		if purges && g.p(0.06) {
			// an administrator purges a key that is probably resident
			prev := p.Ops[max(0, len(p.Ops)-1-g.n(0, 3))]
			if prev.Kind == OpReq {
				p.Ops = append(p.Ops, Op{Kind: OpPurge, Cache: pick(g, "c1", "c1", "c2"), Key: "GET " + hostA + " " + prev.URI, Barrier: g.p(0.5)})
			}
		}
		switch {
		case multi:
			if i == nreq/2 || i == nreq*3/4 {
				p.Ops = append(p.Ops, Op{Kind: OpReload, Config: 1, Barrier: true})
			}
			if i == nreq/2+max(2, nreq/12) || i == nreq*3/4+max(2, nreq/12) {
				p.Ops = append(p.Ops, Op{Kind: OpReload, Config: 2, Barrier: true})
			}
		case len(p.Configs) > 1 && g.p(3.0/float64(nreq)):
			p.Ops = append(p.Ops, Op{Kind: OpReload, Config: g.n(1, len(p.Configs)-1), Barrier: true})
		}
	}
	return p
}

type c11State struct {
	size      int
	bound     map[string]int   // cache name -> bound in force
	recency   map[int][]string // shard -> keys, least recent first
	nextReq   int
	nextMisc  int
	nextPurge int
	reloaded  bool
	reloading *MiscRec
	evPos     int
}

func armC11(e *Engine) {
	st := &c11State{recency: map[int][]string{}, bound: map[string]int{}}
	st.size = e.plan.Configs[0].Caches[0].Size
	for _, c := range e.plan.Configs[0].Caches {
		st.bound[c.Name] = c.Size
	}
	if st.size < 8 {
		e.hist.Probes["size<8"]++
	}
	if st.size >= 1024 {
		e.hist.Probes["size>=1024"]++
	}
	e.onStep = func(e *Engine) {
		// the bounds in force: a cache that stays configured keeps its dispatcher (its size is
		// documented as restart-only: the largest size configured so far is the bound asserted),
		// a cache that was dropped and is configured anew is a new cache with its new size
		for st.nextMisc < len(e.hist.Misc) {
			m := e.hist.Misc[st.nextMisc]
			if m.Kind != "reload" {
				st.nextMisc++
				continue
			}
			st.reloaded = true
			if m.ReturnSeq < 0 {
				st.reloading = m
				break
			}
			st.reloading = nil
			st.nextMisc++
			var ci int
			fmt.Sscanf(m.Text, "%d", &ci)
			if ci >= len(e.plan.Configs) {
				continue
			}
			nb := map[string]int{}
			for _, c := range e.plan.Configs[ci].Caches {
				if old, ok := st.bound[c.Name]; ok && old > c.Size {
					nb[c.Name] = old
				} else {
					nb[c.Name] = c.Size
					if !ok {
						e.hist.Probes["cache-configured-anew"]++
					}
				}
			}
			st.bound = nb
		}
		if st.reloading != nil {
			return
		}
		for _, name := range sortedKeys(st.bound) {
			d := pikecache.GetDispatcher(name)
			if d == nil {
				continue
			}
			n, bound := d.VerifLen(), st.bound[name]
			if n == bound {
				e.hist.Probes["resident==size"]++
			}
			if n > bound {
				e.violate("C11", "residency-exceeds-size", "more keys resident than the configured size",
					fmt.Sprintf("cache %s size %d but %d keys are resident after step %d (shard lengths %v)", name, bound, n, e.step, d.VerifShardLens()))
			}
		}
		d := pikecache.GetDispatcher("c1")
		if d == nil {
			return
		}
		if !e.plan.Sequential || st.reloaded {
			return
		}
		// sequential histories: every request is one lookup, in operation order
		for st.nextReq < len(e.hist.Reqs) {
			r := e.hist.Reqs[st.nextReq]
			if r.ReturnSeq < 0 {
				break
			}
			st.nextReq++
			// purges completed before this request was issued: the key leaves its shard's list
			// (its departure is reported like an eviction)
			for st.nextPurge < len(e.hist.Misc) {
				m := e.hist.Misc[st.nextPurge]
				if m.Kind == "purge" && (m.ReturnSeq < 0 || m.ReturnSeq > r.InvokeSeq) {
					break
				}
				st.nextPurge++
				if m.Kind != "purge" || m.Cache != "c1" {
					continue
				}
				ps := d.VerifShardOf([]byte(m.Key))
				pl := st.recency[ps]
				for i, k := range pl {
					if k == m.Key {
						st.recency[ps] = append(pl[:i:i], pl[i+1:]...)
						e.hist.Probes["purged-resident-key"]++
						for j := st.evPos; j < len(e.evLog); j++ {
							if strings.HasPrefix(e.evLog[j], "c1|") {
								if e.evLog[j] == fmt.Sprintf("c1|%d|%s", ps, m.Key) {
									e.evLog = append(e.evLog[:j:j], e.evLog[j+1:]...)
								}
								break
							}
						}
						break
					}
				}
			}
			if r.Addr != srvAddr {
				continue
			}
			shard := d.VerifShardOf([]byte(r.Key))
			lst := st.recency[shard]
			for i, k := range lst {
				if k == r.Key {
					lst = append(lst[:i], lst[i+1:]...)
					break
				}
			}
			// evictions caused by this lookup were reported before the request returned
			for st.evPos < len(e.evLog) {
				ev := e.evLog[st.evPos]
				st.evPos++
				parts := strings.SplitN(ev, "|", 3)
				if len(parts) != 3 || parts[0] != "c1" {
					continue
				}
				key := parts[2]
				e.hist.Probes["lru-order-checked"]++
				if len(lst) == 0 || lst[0] != key {
					want := "<none resident>"
					if len(lst) > 0 {
						want = lst[0]
					}
					e.violate("C11", "evicted-not-lru", "the key dropped is not the least recently used of its shard",
						fmt.Sprintf("lookup of %q (shard %d) dropped %q but the least recently used key of that shard is %q (recency list, oldest first: %v)", r.Key, shard, key, want, head(lst, 8)))
				}
				for i, k := range lst {
					if k == key {
						lst = append(lst[:i], lst[i+1:]...)
						break
					}
				}
			}
			lst = append(lst, r.Key)
			st.recency[shard] = lst
		}
	}
}

func head(s []string, n int) []string {
	if len(s) > n {
		return s[:n]
	}
	return s
}
