package engine

import (
	"fmt"
	"strings"

	pikecache "github.com/vicanso/pike/cache"
)

// ---------------------------------------------------------------------------------
// C11 - residency bound and LRU order

func init() {
	register(&Profile{
		Name:     "C11",
		Property: "C11",
		Gen:      genC11,
		Arm:      armC11,
		Oracles:  []func(o *Outcome) []Violation{respOracle("C11", "wrong-key", "wrong-body", "unattributable-response"), servedOracle("C11"), livenessOracle("C11")},
		NonTrivial: func(o *Outcome) bool {
			return o.Hist.Probes["evictions"] > 0
		},
		Rule:         "every run uses one cache size S from [1..40, 63,64,65,127,128,1000,1023,1024,1025,4096] (S is drawn from that list by the run seed; quick tier mostly replaces the large sizes by small ones), key population > S (2S..10S for small S), access sequences several times S, sequential (exact LRU-order model per shard) or from concurrent clients (bound only), store on/off. Online invariant after every step: resident entries <= S; on every eviction in sequential runs the dropped key is the least recently used of its shard in the reference recency list. non-trivial = at least one eviction occurred; distinct = distinct history hash",
		ExpectProbes: []string{"evictions", "lru-order-checked", "size<8", "size>=1024", "resident==size"},
	})
}

var c11Sizes = func() []int {
	var s []int
	for i := 1; i <= 40; i++ {
		s = append(s, i)
	}
	return append(s, 63, 64, 65, 127, 128, 1000, 1023, 1024, 1025, 4096)
}()

func genC11(g *Gen) *Plan {
	// the size is a function of the seed so that a replay file is self-contained
	S := c11Sizes[int(g.Seed%uint64(len(c11Sizes)))]
	if g.Tier != "thorough" && S > 200 && g.p(0.6) {
		S = c11Sizes[g.n(0, 44)]
	}
	p := &Plan{Profile: "C11", Seed: g.Seed, Policy: "uniform", MaxSteps: 400000}
	store := ""
	if g.p(0.3) {
		store = storeURL
		p.InlineStore = true
	}
	p.Configs = []Config{baseConfig(S, "1s", store)}
	p.Sequential = g.p(0.7)
	p.ShardMode = pick(g, "", "", "two")
	pop := 0
	nreq := 0
	switch {
	case S <= 40:
		pop = g.n(2*S, 10*S) + 8
		nreq = g.n(5*S, 30*S) + 40
	case S <= 128:
		pop = g.n(S+1, 3*S)
		nreq = g.n(3*S, 6*S)
	default:
		pop = S + g.n(1, 300)
		nreq = pop + g.n(100, 600)
	}
	// a fifth of the runs re-apply the configuration with other sizes for the same cache while
	// traffic continues (cache size is documented as restart-only: whichever size is in force,
	// residency must stay within the largest size ever configured)
	if g.p(0.2) && S <= 128 {
		for i := 0; i < g.n(1, 3); i++ {
			c := baseConfig(pick(g, 1, 3, 5, 7, 8, 20, 100, 127, 2000), "1s", store)
			p.Configs = append(p.Configs, c)
		}
	}
	p.Default = cacheable(3600, 12)
	p.Notes = fmt.Sprintf("size=%d population=%d requests=%d", S, pop, nreq)
	// access pattern: mixture of a sweep, a hot set and uniform picks
	hot := max(1, pop/5)
	for i := 0; i < nreq; i++ {
		var k int
		switch x := g.n(0, 9); {
		case i < pop && S > 128:
			k = i // fill phase for large sizes
		case x < 4:
			k = g.R.IntN(pop)
		case x < 8:
			k = g.R.IntN(hot)
		default:
			k = i % pop
		}
		op := reqOp("GET", hostA, fmt.Sprintf("/n%d", k))
		if !p.Sequential && g.p(0.25) {
			op.Barrier = true
		}
		p.Ops = append(p.Ops, op)
		if len(p.Configs) > 1 && g.p(3.0/float64(nreq)) {
			p.Ops = append(p.Ops, Op{Kind: OpReload, Config: g.n(1, len(p.Configs)-1), Barrier: true})
		}
	}
	return p
}

type c11State struct {
	size     int
	recency  map[int][]string // shard -> keys, least recent first
	nextReq  int
	reloaded bool
	evPos    int
}

func armC11(e *Engine) {
	st := &c11State{recency: map[int][]string{}}
	st.size = e.plan.Configs[0].Caches[0].Size
	if st.size < 8 {
		e.hist.Probes["size<8"]++
	}
	if st.size >= 1024 {
		e.hist.Probes["size>=1024"]++
	}
	e.onStep = func(e *Engine) {
		d := pikecache.GetDispatcher("c1")
		if d == nil {
			return
		}
		// the bound in force: the largest size configured so far for this cache
		for _, m := range e.hist.Misc {
			if m.Kind == "reload" {
				var ci int
				fmt.Sscanf(m.Text, "%d", &ci)
				if ci < len(e.plan.Configs) {
					if sz := e.plan.Configs[ci].Caches[0].Size; sz > st.size {
						st.size = sz
					}
					st.reloaded = true
				}
			}
		}
		n := d.VerifLen()
		if n == st.size {
			e.hist.Probes["resident==size"]++
		}
		if n > st.size {
			e.violate("C11", "residency-exceeds-size", "more keys resident than the configured size",
				fmt.Sprintf("cache size %d but %d keys are resident after step %d (shard lengths %v)", st.size, n, e.step, d.VerifShardLens()))
		}
		if !e.plan.Sequential || st.reloaded {
			return
		}
		// sequential histories: every request is one lookup, in operation order
		for st.nextReq < len(e.hist.Reqs) {
			r := e.hist.Reqs[st.nextReq]
			if r.ReturnSeq < 0 {
				break
			}
			st.nextReq++
			shard := d.VerifShardOf([]byte(r.Key))
			lst := st.recency[shard]
			for i, k := range lst {
				if k == r.Key {
					lst = append(lst[:i], lst[i+1:]...)
					break
				}
			}
			// evictions caused by this lookup were reported before the request returned
			for st.evPos < len(e.evLog) {
				ev := e.evLog[st.evPos]
				st.evPos++
				parts := strings.SplitN(ev, "|", 3)
				if len(parts) != 3 || parts[0] != "c1" {
					continue
				}
				key := parts[2]
				e.hist.Probes["lru-order-checked"]++
				if len(lst) == 0 || lst[0] != key {
					want := "<none resident>"
					if len(lst) > 0 {
						want = lst[0]
					}
					e.violate("C11", "evicted-not-lru", "the key dropped is not the least recently used of its shard",
						fmt.Sprintf("lookup of %q (shard %d) dropped %q but the least recently used key of that shard is %q (recency list, oldest first: %v)", r.Key, shard, key, want, head(lst, 8)))
				}
				for i, k := range lst {
					if k == key {
						lst = append(lst[:i], lst[i+1:]...)
						break
					}
				}
			}
			lst = append(lst, r.Key)
			st.recency[shard] = lst
		}
	}
}

func head(s []string, n int) []string {
	if len(s) > n {
		return s[:n]
	}
	return s
}
