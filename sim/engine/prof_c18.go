package engine

import (
	"fmt"
	"strings"
)

// ---------------------------------------------------------------------------------
// C18 - purge

const srvAddr2 = ":3016"

func init() {
	register(&Profile{
		Name:     "C18",
		Property: "C18",
		Gen:      func(g *Gen) *Plan { return swarm(g, genC18(g), 0.25, 0.0) },
		Oracles: []func(o *Outcome) []Violation{
			func(o *Outcome) []Violation {
				if len(o.Plan.StoreFaults) > 0 {
					return relabel("C18", oracleC10Purge)(o) // purges with failing deletes: memory must still be purged
				}
				return oracleC18(o)
			}, livenessOracle("C18"), servedOracle("C18")},
		NonTrivial: func(o *Outcome) bool {
			return o.Hist.Probes["request-after-purge-of-present-entry"] > 0
		},
		Rule:         "seeded plans: two caches behind two servers sharing one origin, 2-4 keys requested on both, named / unnamed purges of present and absent keys and of an absent cache placed before, during (origin replies withheld) and after fetches, expiry in between, with and without the simulated store. in a quarter of the plans a tenth of the clients disconnect at a scheduler-chosen step (fault client-disconnect). non-trivial = a request followed a completed purge of an entry that was installed before the purge began; distinct = distinct history hash",
		ExpectProbes: []string{"request-after-purge-of-present-entry", "purge-during-withheld-fetch", "purge-absent-key", "purge-absent-cache", "purge-unnamed", "purge-named", "other-cache-retained", "neighbour-retained", "store-checked-after-purge"},
	})
}

func twoCacheConfig(store1, store2 string) Config {
	return Config{
		Caches:    []CacheCfg{{Name: "c1", Size: 1000, HitForPass: "1s", Store: store1}, {Name: "c2", Size: 1000, HitForPass: "1s", Store: store2}},
		Upstreams: []UpstreamCfg{{Name: "u1", Policy: "first", Servers: []UpstreamSrv{{Addr: "http://" + originA}}}},
		Locations: []LocationCfg{{Name: "l1", Upstream: "u1"}},
		Servers: []ServerCfg{{Addr: srvAddr, Locations: []string{"l1"}, Cache: "c1"},
			{Addr: srvAddr2, Locations: []string{"l1"}, Cache: "c2"}},
	}
}

func genC18(g *Gen) *Plan {
	p := &Plan{Profile: "C18", Seed: g.Seed, Policy: g.policy(), ClockMenuMs: []int{300, 1000}, ClockWeight: pick(g, 0.0, 0.03), MaxSteps: 3000}
	// (Host names are matched byte for byte by the cache key and by the purge key alike; a
	// quarter of the plans use one with capitals)
	host := pick(g, hostA, hostA, hostA, "A.Test")
	s1, s2 := "", ""
	if g.p(0.5) {
		s1, s2 = storeURL, storeURL2
		switch g.n(0, 9) {
		case 0, 1, 2:
			s2 = ""
		case 3, 4:
			s2 = storeURL // one store URL may back several caches
		}
	}
	p.Configs = []Config{twoCacheConfig(s1, s2)}
	nkeys := g.n(2, 4)
	var uris []string
	p.Scripts = map[string][]Reply{}
	for i := 0; i < nkeys; i++ {
		u := fmt.Sprintf("/g%d", i)
		if i == 1 && g.p(0.3) {
			// a key far beyond a kilobyte (a long query string)
			u += "?q=" + strings.Repeat("0123456789abcdef", 80)
		}
		uris = append(uris, u)
		var s []Reply
		for j := 0; j < 8; j++ {
			s = append(s, cacheable(g.n(20, 60), g.n(10, 100)))
		}
		p.Scripts["GET "+host+" "+u] = s
	}
	p.Default = cacheable(30, 40)
	unnamed := false
	withhold := g.p(0.35)
	if withhold {
		p.Withhold = []string{"GET " + host + " " + uris[0]}
	}
	n := g.n(12, 30)
	for i := 0; i < n; i++ {
		switch x := g.n(0, 9); {
		case x < 7:
			u := uris[g.R.IntN(len(uris))]
			if g.p(0.4) {
				u = uris[0]
			}
			op := reqOp("GET", host, u)
			op.Addr = pick(g, srvAddr, srvAddr, srvAddr2)
			op.Barrier = g.p(0.25)
			p.Ops = append(p.Ops, op)
		case x < 9:
			key := "GET " + host + " " + uris[g.R.IntN(len(uris))]
			if g.p(0.5) {
				key = "GET " + host + " " + uris[0]
			}
			cacheName := pick(g, "c1", "c1", "c2", "", "nosuch")
			if g.p(0.1) {
				key = "GET " + host + " /never-requested"
			}
			if cacheName == "" {
				unnamed = true
			}
			if cacheName == "" {
				// iteration order over the caches (sync.Map) is not reproducible: an
				// unnamed purge runs while nothing else does (named purges race freely)
				p.Ops = append(p.Ops, Op{Kind: OpPurge, Cache: cacheName, Key: key, Barrier: true}, Op{Kind: "noop", Barrier: true})
			} else {
				p.Ops = append(p.Ops, Op{Kind: OpPurge, Cache: cacheName, Key: key, Barrier: g.p(0.3)})
			}
		default:
			p.Ops = append(p.Ops, sleepOp(pick(g, 300, 1000, 3000), g.p(0.5)))
		}
	}
	if s1 != "" && !unnamed && g.p(0.4) {
		// some store deletes fail: the persisted copy may stay (stated relaxation), memory must be purged
		p.StoreFaults = make([]string, 150)
		for i := range p.StoreFaults {
			if g.p(0.3) {
				p.StoreFaults[i] = "delerr"
			}
		}
	}
	if unnamed && (s1 != "" || s2 != "") {
		// an unnamed purge iterates a sync.Map: it runs as one atomic section and the
		// store completes inline so that no lock is held across a park
		p.InlineStore = true
	}
	return p
}

type purgeRec struct {
	m     *MiscRec
	cache string // "" = all
}

func oracleC18(o *Outcome) []Violation {
	var out []Violation
	cfg := &o.Plan.Configs[0]
	views := o.Views()
	var purges []*MiscRec
	for _, m := range o.Hist.Misc {
		if m.Kind == "purge" {
			purges = append(purges, m)
			switch {
			case m.Cache == "":
				o.Hist.Probes["purge-unnamed"]++
			case m.Cache == "nosuch":
				o.Hist.Probes["purge-absent-cache"]++
			default:
				o.Hist.Probes["purge-named"]++
			}
		}
	}
	covers := func(m *MiscRec, cache, key string) bool {
		return m.Key == key && (m.Cache == "" || m.Cache == cache)
	}
	for _, v := range views {
		r := v.R
		cache := cacheOf(cfg, r.Addr)
		if v.Kind != "origin" || v.Up.Req < 0 {
			continue
		}
		u := v.Up
		f := o.Hist.Reqs[u.Req]
		if len(v.OwnUps) == 0 && f != r {
			// served from cache: not from an entry that was completely installed before a
			// purge that completed before this request began
			for _, m := range purges {
				if m.ReturnSeq < 0 || !covers(m, cache, r.Key) {
					continue
				}
				if storeDeleteFailed(o, m) {
					// the store refused the delete: the persisted copy is still there through no
					// fault of pike's (what is owed then is C10's business)
					o.Hist.Probes["purge-with-failed-store-delete"]++
					continue
				}
				if f.Addr == r.Addr && f.ReturnSeq >= 0 && f.ReturnSeq < m.InvokeSeq && r.InvokeSeq > m.ReturnSeq {
					out = append(out, violation("C18", "served-purged-entry", "request after a completed purge answered from the purged entry",
						"client op %d %s @%s (invoked seq %d) was answered without upstream contact from reply #%d, fetched by op %d which returned at seq %d, before purge(cache=%q) ran from seq %d to %d",
						r.Op, r.Key, r.Addr, r.InvokeSeq, u.Serial, f.Op, f.ReturnSeq, m.Cache, m.InvokeSeq, m.ReturnSeq))
				}
			}
		}
		if len(v.OwnUps) > 0 {
			// went upstream: count the interesting case and check retention
			for _, m := range purges {
				if m.ReturnSeq >= 0 && covers(m, cache, r.Key) && r.InvokeSeq > m.ReturnSeq {
					for _, u0 := range o.Hist.Ups {
						if u0.Key == r.Key && u0.Req >= 0 && o.Hist.Reqs[u0.Req].Addr == r.Addr && o.Hist.Reqs[u0.Req].ReturnSeq >= 0 && o.Hist.Reqs[u0.Req].ReturnSeq < m.InvokeSeq && u0.Shareable {
							o.Hist.Probes["request-after-purge-of-present-entry"]++
							break
						}
					}
					break
				}
			}
			// retention: an entry that no purge touched and that is inside its lifetime is not refetched
			own := v.OwnUps[0]
			for _, u1 := range o.Hist.Ups {
				if u1 == own || u1.Key != r.Key || u1.Req < 0 || !u1.Shareable || !u1.Answered || !fetcherStored(o, u1) {
					continue
				}
				f1 := o.Hist.Reqs[u1.Req]
				if f1.Addr != r.Addr || f1.ReturnSeq < 0 || f1.ReturnSeq > r.InvokeSeq {
					continue
				}
				if secFloor(own.ArriveT) > secFloor(u1.ReplyT)+int64(u1.Lifetime) {
					continue
				}
				touched := false
				for _, m := range purges {
					if covers(m, cache, r.Key) && m.InvokeSeq < own.ArriveSeq && (m.ReturnSeq < 0 || m.ReturnSeq > f1.InvokeSeq) {
						touched = true
					}
				}
				// a later fetch of the same (server,key) may have replaced it - irrelevant: still a hit expected
				if !touched {
					out = append(out, violation("C18", "entry-lost-without-purge", "entry that no purge touched was dropped",
						"client op %d %s @%s went upstream (#%d at t=%dms) although reply #%d (lifetime %ds, fetched t=%dms on the same server) was installed and no purge of this key for cache %q ran in between",
						r.Op, r.Key, r.Addr, own.Serial, own.ArriveT, u1.Serial, u1.Lifetime, u1.ReplyT, cache))
					break
				}
			}
		}
		if len(v.OwnUps) == 0 && f != r {
			// a hit although some purge of another cache / key happened after the fetch
			for _, m := range purges {
				if m.ReturnSeq >= 0 && m.InvokeSeq > f.ReturnSeq && m.ReturnSeq < r.InvokeSeq && f.ReturnSeq >= 0 {
					if m.Key == r.Key && m.Cache != "" && m.Cache != cache {
						o.Hist.Probes["other-cache-retained"]++
					} else if m.Key != r.Key {
						o.Hist.Probes["neighbour-retained"]++
					}
				}
			}
		}
	}
	// purge does not wait for an in-flight (withheld) fetch, and the persisted copy is gone
	for _, m := range purges {
		if m.ReturnSeq < 0 {
			continue
		}
		present := false
		for _, r := range o.Hist.Reqs {
			if r.Key == m.Key {
				present = true
			}
		}
		if !present {
			o.Hist.Probes["purge-absent-key"]++
		}
		for _, u := range o.Hist.Ups {
			if u.Key != m.Key || !o.Plan.withheldKey(u.Key) || u.Req < 0 {
				continue
			}
			if u.ArriveSeq < m.InvokeSeq && (u.EndSeq == 0 || u.EndSeq > m.InvokeSeq) {
				o.Hist.Probes["purge-during-withheld-fetch"]++
				if u.Answered && m.ReturnSeq > u.ReplySeq {
					out = append(out, violation("C18", "purge-waited-for-fetch", "purge completed only after an in-flight fetch was answered",
						"purge(cache=%q key=%q) invoked at seq %d returned at seq %d, after the withheld reply #%d (arrived seq %d) was delivered at seq %d", m.Cache, m.Key, m.InvokeSeq, m.ReturnSeq, u.Serial, u.ArriveSeq, u.ReplySeq))
				}
			}
		}
		if m.DiskChecked {
			o.Hist.Probes["store-checked-after-purge"]++
			if m.DiskHas {
				out = append(out, violation("C18", "persisted-copy-survives", "persisted copy still present after the purge returned",
					"purge(cache=%q key=%q) returned at seq %d, no request of the key overlapped it and the delete was not failed, yet the store of that cache still holds a record", m.Cache, m.Key, m.ReturnSeq))
			}
		}
	}
	return out
}

func (p *Plan) withheldKey(k string) bool {
	for _, w := range p.Withhold {
		if w == k || w == "*" {
			return true
		}
	}
	return false
}

// storeDeleteFailed: a store delete issued by the purge m came back with an error.
func storeDeleteFailed(o *Outcome, m *MiscRec) bool {
	for _, s := range o.Hist.Stores {
		if s.Task == m.Task && s.Op == "delete" && s.Err != "" {
			return true
		}
	}
	return false
}
