package engine

import (
	"net/http"
	"strconv"
	"strings"
)

// Verdict is the reference model's reading of an origin reply, written from the
// text of property C03 (not from pike's getCacheMaxAge):
//
//	shareable iff method is GET/HEAD, there is no Set-Cookie, Cache-Control is present and
//	carries none of no-cache / no-store / private (names compared case-insensitively), and
//	s-maxage (preferred) or max-age, minus Age, is positive.
type Verdict struct {
	Shareable bool
	Lifetime  int
	// Ambiguous: the header set is outside what the statement pins down (malformed
	// Age, overflowing or malformed numbers, duplicated conflicting directives); no
	// oracle asserts anything that depends on the reading.
	Ambiguous bool
	// MustNot: whatever the reading, this reply must not be stored.
	MustNot bool
	Why     string
}

// judgeReplyAdded: the verdict when the serving location adds response headers of its own
// (configuration `respHeaders`). What the origin itself forbids stays forbidden; where the
// added headers would change the reading (an added Cache-Control giving a lifetime the
// origin did not give) the statement does not say which wins and nothing is asserted.
func judgeReplyAdded(method string, status int, h http.Header, added http.Header) Verdict {
	v := judgeReply(method, status, h)
	if len(added) == 0 {
		return v
	}
	switch v.Why {
	case "method", "set-cookie", "no-cache", "no-store", "private":
		return v
	}
	all := h.Clone()
	for k, vs := range added {
		for _, x := range vs {
			all.Add(k, x)
		}
	}
	v2 := judgeReply(method, status, all)
	if v2.MustNot != v.MustNot || v2.Shareable != v.Shareable || v2.Lifetime != v.Lifetime || v2.Ambiguous != v.Ambiguous {
		return Verdict{Ambiguous: true, Why: "location adds caching headers"}
	}
	return v
}

func judgeReply(method string, status int, h http.Header) Verdict {
	v := Verdict{}
	if method != http.MethodGet && method != http.MethodHead {
		v.MustNot = true
		v.Why = "method"
		return v
	}
	if len(h.Values("Set-Cookie")) > 0 {
		nonEmpty := false
		for _, c := range h.Values("Set-Cookie") {
			if c != "" {
				nonEmpty = true
			}
		}
		if nonEmpty {
			v.MustNot = true
			v.Why = "set-cookie"
			return v
		}
	}
	ccs := h.Values("Cache-Control")
	if len(ccs) == 0 {
		v.MustNot = true
		v.Why = "no cache-control"
		return v
	}
	var sMax, mAge *int
	dupS, dupM := false, false
	bad := false
	for _, line := range ccs {
		for _, part := range strings.Split(line, ",") {
			part = strings.TrimSpace(part)
			if part == "" {
				continue
			}
			name, val := part, ""
			if i := strings.IndexByte(part, '='); i >= 0 {
				name, val = strings.TrimSpace(part[:i]), strings.TrimSpace(part[i+1:])
			}
			name = strings.ToLower(name)
			switch name {
			case "no-cache", "no-store", "private":
				v.MustNot = true
				v.Why = name
				return v
			case "s-maxage", "max-age":
				val = strings.Trim(val, `"`)
				n, err := strconv.Atoi(val)
				if err != nil || n < 0 || n > 1<<31-1 || val == "" || strings.HasPrefix(val, "+") {
					bad = true
					continue
				}
				if name == "s-maxage" {
					if sMax != nil && *sMax != n {
						dupS = true
					}
					sMax = &n
				} else {
					if mAge != nil && *mAge != n {
						dupM = true
					}
					mAge = &n
				}
			}
		}
	}
	if bad || dupS || dupM {
		v.Ambiguous = true
		v.Why = "malformed or conflicting max-age"
		return v
	}
	life := 0
	switch {
	case sMax != nil:
		life = *sMax
	case mAge != nil:
		life = *mAge
	default:
		v.MustNot = true
		v.Why = "no max-age"
		return v
	}
	if ages := h.Values("Age"); len(ages) > 0 {
		if len(ages) > 1 {
			v.Ambiguous = true
			v.Why = "several Age headers"
			return v
		}
		age := strings.TrimSpace(ages[0])
		if age != "" && strings.Trim(age, "0123456789") == "" && len(strings.TrimLeft(age, "0")) > 10 {
			// a well-formed Age beyond any representable lifetime: max-age (at most 2^31-1
			// here) minus Age is negative whatever the integer width
			v.MustNot = true
			v.Why = "huge Age"
			return v
		}
		a, err := strconv.Atoi(age)
		if err != nil || a < 0 || a > 1<<31-1 {
			// malformed Age: either ignored or read literally - nothing is asserted
			// unless the lifetime is non-positive under the "ignored" reading too
			if life <= 0 {
				v.MustNot = true
				v.Why = "zero lifetime"
				return v
			}
			v.Ambiguous = true
			v.Why = "malformed Age"
			return v
		}
		life -= a
	}
	if life <= 0 {
		v.MustNot = true
		v.Why = "lifetime<=0"
		return v
	}
	v.Shareable = true
	v.Lifetime = life
	return v
}
