package engine

import (
	"bytes"
	"compress/gzip"
	"context"
	"errors"
	"fmt"
	"io"
	"net"
	"net/http"
	"sort"
	"strconv"
	"strings"
	"time"

	"github.com/andybalholm/brotli"
	"github.com/golang/snappy"
	"github.com/klauspost/compress/zstd"
	"github.com/pierrec/lz4"
	pikestore "github.com/vicanso/pike/store"
)

// ---------------------------------------------------------------------------------
// codecs of the harness (independent of pike's wrappers)

// wireEnc: the Content-Encoding token an origin announces for a scripted encoding.
func wireEnc(enc string) string {
	if enc == "gzipm" {
		return "gzip"
	}
	return enc
}

func encodeBody(enc string, raw []byte) []byte {
	switch enc {
	case "":
		return raw
	case "gzip":
		var b bytes.Buffer
		w, _ := gzip.NewWriterLevel(&b, 6)
		_, _ = w.Write(raw)
		_ = w.Close()
		return b.Bytes()
	case "gzipm":
		// a gzip body of two members (RFC 1952 allows any number: concatenated .gz files, pigz)
		h := len(raw) / 2
		return append(encodeBody("gzip", raw[:h]), encodeBody("gzip", raw[h:])...)
	case "br":
		var b bytes.Buffer
		w := brotli.NewWriterLevel(&b, 4)
		_, _ = w.Write(raw)
		_ = w.Close()
		return b.Bytes()
	case "lz4":
		if len(raw) == 0 {
			return nil // a block codec has nothing to emit for an empty body
		}
		buf := make([]byte, lz4.CompressBlockBound(len(raw))+16)
		n, err := lz4.CompressBlock(raw, buf, nil)
		if err != nil || n == 0 {
			// incompressible input: lz4 block of literals only is still produced by
			// CompressBlock when the destination is large enough; n==0 means "not
			// compressible" - fall back to a literal-only block built by hand
			return lz4Literal(raw)
		}
		return buf[:n]
	case "zst":
		w, _ := zstd.NewWriter(nil, zstd.WithEncoderConcurrency(1))
		out := w.EncodeAll(raw, nil)
		_ = w.Close()
		return out
	case "snz":
		return snappy.Encode(nil, raw)
	}
	panic("sim: unknown encoding " + enc)
}

// lz4Literal builds a valid lz4 block consisting of one literal run.
func lz4Literal(raw []byte) []byte {
	n := len(raw)
	var out []byte
	if n < 15 {
		out = append(out, byte(n<<4))
	} else {
		out = append(out, 0xF0)
		r := n - 15
		for r >= 255 {
			out = append(out, 255)
			r -= 255
		}
		out = append(out, byte(r))
	}
	return append(out, raw...)
}

func decodeBody(enc string, data []byte) ([]byte, error) {
	switch enc {
	case "":
		return data, nil
	case "gzip":
		r, err := gzip.NewReader(bytes.NewReader(data))
		if err != nil {
			return nil, err
		}
		return io.ReadAll(r)
	case "br":
		return io.ReadAll(brotli.NewReader(bytes.NewReader(data)))
	}
	return nil, fmt.Errorf("unexpected content-encoding %q", enc)
}

// makeBody builds the self-describing identity body of a reply.
func makeBody(serial int, key, class string, size int) []byte {
	if size <= 0 {
		return nil
	}
	if class == "fixed" {
		// content depends on the key only (differential probes compare encoded lengths)
		serial = 0
		class = "text"
	}
	head := fmt.Sprintf("SIM1|%d|%s|%s|%d|\n", serial, key, class, size)
	out := make([]byte, 0, size)
	out = append(out, head...)
	x := uint64(serial)*0x9E3779B97F4A7C15 + 0x1234567
	for len(out) < size {
		switch class {
		case "bin":
			x ^= x << 13
			x ^= x >> 7
			x ^= x << 17
			out = append(out, byte(x), byte(x>>8), byte(x>>16), byte(x>>24), byte(x>>32), byte(x>>40), byte(x>>48), byte(x>>56))
		case "rep":
			out = append(out, "aaaaaaaaaaaaaaaaaaaaaaaaaaaaaaaa"...)
		default:
			x = x*6364136223846793005 + 1442695040888963407
			out = append(out, fmt.Sprintf("lorem %d ipsum dolor sit amet %d; ", x>>40&0xff, serial)...)
		}
	}
	return out[:size]
}

// ---------------------------------------------------------------------------------
// simulated origin

// UpCall is a request as the origin received it, plus (later) the answer.
type UpCall struct {
	Method   string
	Host     string
	Target   string
	Path     string
	RawQuery string
	Header   http.Header
	Body     []byte
	// answer, filled by the controller
	status  int
	header  http.Header
	body    []byte
	fault   string
	abortAt int
}

type simTransport struct{}

type abortReader struct {
	data []byte
	off  int
	at   int
}

func (r *abortReader) Read(p []byte) (int, error) {
	if r.off >= r.at {
		return 0, errors.New("sim: upstream connection reset mid-body")
	}
	n := copy(p, r.data[r.off:r.at])
	r.off += n
	return n, nil
}
func (r *abortReader) Close() error { return nil }

func (tr *simTransport) RoundTrip(req *http.Request) (*http.Response, error) {
	e := curEngine.Load()
	if e == nil {
		return nil, errors.New("sim: no engine")
	}
	t := e.curTask()
	if t == nil {
		return nil, errors.New("sim: upstream request outside a simulated task")
	}
	var body []byte
	if req.Body != nil {
		body, _ = io.ReadAll(req.Body)
		_ = req.Body.Close()
	}
	call := &UpCall{
		Method:   req.Method,
		Host:     req.Host,
		Target:   req.URL.Host,
		Path:     req.URL.EscapedPath(),
		RawQuery: req.URL.RawQuery,
		Header:   req.Header.Clone(),
		Body:     body,
	}
	t.setUp(call)
	if !t.parkCall(tsUpstream, "sim.origin", req.Context()) {
		err := context.Cause(req.Context())
		if err == nil {
			err = req.Context().Err()
		}
		return nil, err
	}
	switch call.fault {
	case "err":
		return nil, errors.New("sim: connection refused by origin")
	}
	resp := &http.Response{
		StatusCode:    call.status,
		Status:        strconv.Itoa(call.status) + " " + http.StatusText(call.status),
		Proto:         "HTTP/1.1",
		ProtoMajor:    1,
		ProtoMinor:    1,
		Header:        call.header,
		ContentLength: int64(len(call.body)),
		Request:       req,
	}
	if call.fault == "abort" {
		resp.Body = &abortReader{data: call.body, at: call.abortAt}
	} else {
		resp.Body = io.NopCloser(bytes.NewReader(call.body))
	}
	return resp, nil
}

//go:norace
func (t *Task) setUp(c *UpCall) { t.up = c }

//go:norace
func (t *Task) getUp() *UpCall { return t.up }

// ---------------------------------------------------------------------------------
// simulated store + disk

type StoreCall struct {
	URL  string
	Op   string
	Key  string
	Data []byte
	TTL  time.Duration
	// answer
	out     []byte
	err     error
	cutAt   int
	fullLen int
}

type diskRec struct {
	data     []byte
	expireMs int64 // absolute simulated ms; 0 = never
	del      bool
}

type pendingWrite struct {
	key string
	rec diskRec
}

// Disk is the durable medium: only `durable` survives a kill; `pending` holds
// acknowledged writes that have not been made durable yet.
type Disk struct {
	durable map[string]diskRec
	pending []pendingWrite
}

func newDisk() *Disk { return &Disk{durable: map[string]diskRec{}} }

func (d *Disk) lookup(key string) (diskRec, bool) {
	for i := len(d.pending) - 1; i >= 0; i-- {
		if d.pending[i].key == key {
			if d.pending[i].rec.del {
				return diskRec{}, false
			}
			return d.pending[i].rec, true
		}
	}
	r, ok := d.durable[key]
	return r, ok
}

func (d *Disk) sync() {
	for _, p := range d.pending {
		if p.rec.del {
			delete(d.durable, p.key)
		} else {
			d.durable[p.key] = p.rec
		}
	}
	d.pending = d.pending[:0]
}

func (d *Disk) keys() []string {
	m := map[string]bool{}
	for k := range d.durable {
		m[k] = true
	}
	for _, p := range d.pending {
		if p.rec.del {
			delete(m, p.key)
		} else {
			m[p.key] = true
		}
	}
	ks := make([]string, 0, len(m))
	for k := range m {
		ks = append(ks, k)
	}
	sort.Strings(ks)
	return ks
}

type simStore struct {
	e      *Engine
	url    string
	closed bool // Close() was called on this handle: every later call fails, as with a closed database
}

var errStoreClosed = errors.New("sim: store is closed")

var errSimStore = errors.New("sim: store i/o error")

func (s *simStore) call(c *StoreCall) {
	e := s.e
	if s.isClosed() {
		c.err = errStoreClosed
		e.noteClosedUse()
		return
	}
	t := e.curTask()
	if t == nil || e.plan.InlineStore || t.inAtomic() {
		// outside the schedule (set-up, restart, atomic section): fault free, inline
		e.applyStore(c, "", -1)
		e.recordInlineStore(t, c)
		return
	}
	t.setStore(c)
	t.parkCall(tsStore, "sim.store."+c.Op, nil)
}

func (s *simStore) Get(key []byte) ([]byte, error) {
	c := &StoreCall{URL: s.url, Op: "get", Key: string(key)}
	s.call(c)
	return c.out, c.err
}

func (s *simStore) Set(key []byte, data []byte, ttl time.Duration) error {
	// the store may read the caller's buffer at any time until Set returns: the bytes are
	// taken when the call completes, not when it starts
	c := &StoreCall{URL: s.url, Op: "set", Key: string(key), Data: data, TTL: ttl}
	s.call(c)
	return c.err
}

func (s *simStore) Delete(key []byte) error {
	c := &StoreCall{URL: s.url, Op: "delete", Key: string(key)}
	s.call(c)
	return c.err
}

func (s *simStore) Close() error {
	s.setClosed(true)
	return nil
}

//go:norace
func (s *simStore) isClosed() bool { return s.closed }

//go:norace
func (s *simStore) setClosed(v bool) { s.closed = v }

//go:norace
func (e *Engine) noteClosedUse() { e.closedUse++ }

var _ pikestore.Store = (*simStore)(nil)

//go:norace
func (t *Task) setStore(c *StoreCall) { t.stc = c }

//go:norace
func (t *Task) getStore() *StoreCall { return t.stc }

//go:norace
func (t *Task) inAtomic() bool { return t.noYield > 0 }

// ---------------------------------------------------------------------------------
// simulated network for listeners and health checks

type fakeConn struct{}

func (fakeConn) Read(b []byte) (int, error)         { return 0, io.EOF }
func (fakeConn) Write(b []byte) (int, error)        { return len(b), nil }
func (fakeConn) Close() error                       { return nil }
func (fakeConn) LocalAddr() net.Addr                { return &net.TCPAddr{} }
func (fakeConn) RemoteAddr() net.Addr               { return &net.TCPAddr{} }
func (fakeConn) SetDeadline(t time.Time) error      { return nil }
func (fakeConn) SetReadDeadline(t time.Time) error  { return nil }
func (fakeConn) SetWriteDeadline(t time.Time) error { return nil }

// ---------------------------------------------------------------------------------
// client side: response writer and result

type ClientResult struct {
	Refused    bool // no listener on the address
	Status     int
	Header     http.Header // snapshot at WriteHeader
	Body       []byte
	Aborted    bool
	PanicVal   string
	WroteHdr   bool
	BodyBytes  int
	AllocBytes int64
}

type simRW struct {
	method   string
	hdr      http.Header
	res      *ClientResult
	wroteHdr bool
}

func newRW(method string) *simRW {
	return &simRW{method: method, hdr: http.Header{}, res: &ClientResult{}}
}

func (w *simRW) Header() http.Header { return w.hdr }

func (w *simRW) WriteHeader(code int) {
	if w.wroteHdr {
		return
	}
	w.wroteHdr = true
	w.res.WroteHdr = true
	w.res.Status = code
	w.res.Header = w.hdr.Clone()
}

func bodyAllowed(method string, status int) bool {
	if method == http.MethodHead {
		return false
	}
	if status >= 100 && status <= 199 || status == 204 || status == 304 {
		return false
	}
	return true
}

func (w *simRW) Write(b []byte) (int, error) {
	if !w.wroteHdr {
		w.WriteHeader(200)
	}
	if !bodyAllowed(w.method, w.res.Status) {
		if w.method == http.MethodHead {
			return len(b), nil
		}
		return 0, http.ErrBodyNotAllowed
	}
	w.res.Body = append(w.res.Body, b...)
	w.res.BodyBytes += len(b)
	return len(b), nil
}

func (w *simRW) finish() *ClientResult {
	if !w.wroteHdr {
		w.WriteHeader(200)
	}
	return w.res
}

func headerPairs(h http.Header) [][2]string {
	keys := make([]string, 0, len(h))
	for k := range h {
		keys = append(keys, k)
	}
	sort.Strings(keys)
	var out [][2]string
	for _, k := range keys {
		for _, v := range h[k] {
			out = append(out, [2]string{k, v})
		}
	}
	return out
}

func lowerHas(list []string, s string) bool {
	for _, x := range list {
		if strings.EqualFold(x, s) {
			return true
		}
	}
	return false
}
