package engine

import (
	"errors"
	"fmt"
	"hash/fnv"
	"math/rand/v2"
	"net"
	"net/http"
	"os"
	"runtime"
	"sort"
	"strings"
	"sync"
	"sync/atomic"
	"testing"
	"testing/synctest"
	"time"
	"unsafe"

	pikecache "github.com/vicanso/pike/cache"
	pikelocation "github.com/vicanso/pike/location"
	pikeserver "github.com/vicanso/pike/server"
	pikestore "github.com/vicanso/pike/store"
	pikeupstream "github.com/vicanso/pike/upstream"
	uslib "github.com/vicanso/upstream"
)

// Engine is the controller of one simulated run (one synctest bubble).
type Engine struct {
	plan   *Plan
	rng    *rand.Rand // schedule choices only
	wrng   *rand.Rand // world choices (crash resolution, sync points): independent of the schedule source
	replay []string
	rpos   int
	sched  []string

	tasks  []*Task
	ntasks atomic.Int32

	hist     *History
	step     int
	seq      int
	start    time.Time
	nextOp   int
	opTask   []int // op index -> task id (or -1)
	opDone   []bool
	epoch    int
	curCfg   int
	mode     int32 // 0 normal, 1 teardown / crash reset (go statements dropped)
	polHot   int
	upCount  map[string]int
	getCount map[string]int
	stCount  int

	disks       map[string]*Disk
	stores      map[string]*simStore
	listeners   map[string]http.Handler
	netMode     map[string]string
	evicted     []string // eviction notifications (shard|key) since last drain
	violations  []Violation
	online      []func(e *Engine) // online invariants run after every step
	onStep      func(e *Engine)
	stuck       bool
	lastRun     *Task
	live        []*Task
	seenTasks   int
	doneUpTo    int
	evLog       []string
	inlineBuf   []*StoreRec
	closedUse   int
	closedAddrs []string
	rwIDs       map[uintptr]bool // mutexes seen at an RLock yield
	// hookMu guards what hooks reached from goroutines woken by the same timer instant (two
	// servers finishing their graceful close) may touch at once
	hookMu sync.Mutex
}

var curEngine atomic.Pointer[Engine]

var debugTrace = os.Getenv("VSIM_DEBUG") != ""

// Outcome of a run.
type Outcome struct {
	Plan       *Plan
	Schedule   []string
	Hist       *History
	Violations []Violation
	Hash       string
}

func init() {
	// process wide hooks; they dispatch to the engine of the current run
	pikeupstream.VerifTransport = func(h2c bool) http.RoundTripper {
		return &simTransport{}
	}
	pikeserver.VerifListen = func(addr string, h http.Handler) error {
		e := curEngine.Load()
		if e == nil {
			return errors.New("sim: no engine")
		}
		return e.listen(addr, h)
	}
	pikeserver.VerifCloseListener = func(addr string, h http.Handler) {
		if e := curEngine.Load(); e != nil {
			e.closeListener(addr, h)
		}
	}
	pikecache.VerifShard = func(key []byte, zones uint64) (uint64, bool) {
		e := curEngine.Load()
		if e == nil {
			return 0, false
		}
		return e.shard(key, zones), true
	}
	uslib.DialTimeout = func(network, addr string, timeout time.Duration) (net.Conn, error) {
		e := curEngine.Load()
		if e == nil {
			return nil, errors.New("sim: no engine")
		}
		return e.dial(addr, timeout)
	}
	uslib.PingTransport = pingTransport{}
	installYieldHooks()
}

type pingTransport struct{}

func (pingTransport) RoundTrip(req *http.Request) (*http.Response, error) {
	e := curEngine.Load()
	if e == nil {
		return nil, errors.New("sim: no engine")
	}
	c, err := e.dial(req.URL.Host, 3*time.Second)
	if err != nil {
		return nil, err
	}
	_ = c.Close()
	if e.getNet(req.URL.Host) == "http500" {
		// the port is open but the health URL answers with an error
		return &http.Response{StatusCode: 500, Status: "500 Internal Server Error", Proto: "HTTP/1.1", ProtoMajor: 1, ProtoMinor: 1, Header: http.Header{}, Body: http.NoBody, Request: req}, nil
	}
	return &http.Response{StatusCode: 200, Status: "200 OK", Proto: "HTTP/1.1", ProtoMajor: 1, ProtoMinor: 1, Header: http.Header{}, Body: http.NoBody, Request: req}, nil
}

// RunInBubble executes plan (and, if sched != nil, the recorded schedule) inside
// a fresh synctest bubble and returns what happened.
// LeakyBubbles counts the runs whose bubble ended with goroutines still blocked.
var LeakyBubbles atomic.Int64

func RunInBubble(t *testing.T, plan *Plan, sched []string, arm func(e *Engine)) (out *Outcome) {
	body := func(tt *testing.T) {
		defer func() {
			if r := recover(); r != nil {
				s := fmt.Sprint(r)
				if out != nil && strings.Contains(s, "deadlock") {
					// leaked goroutines of abandoned / stuck tasks at the end of the bubble
					LeakyBubbles.Add(1)
					if os.Getenv("VSIM_DUMP_LEAK") != "" && LeakyBubbles.Load() <= 3 {
						buf := make([]byte, 1<<20)
						buf = buf[:runtime.Stack(buf, true)]
						fmt.Fprintf(os.Stderr, "LEAK DUMP\n%s\nEND LEAK DUMP\n", buf)
					}
					return
				}
				panic(r)
			}
		}()
		synctest.Test(tt, func(*testing.T) {
			e := newEngine(plan, sched)
			if arm != nil {
				arm(e)
			}
			out = e.run()
		})
	}
	if RaceEnabled {
		// under the race detector a bubble that ends cleanly after a report (the harness' own,
		// filtered later, or a real one) makes synctest.Test end the calling test with FailNow:
		// give every run a subtest of its own to end
		t.Run("run", body)
	} else {
		body(t)
	}
	return out
}

func newEngine(plan *Plan, sched []string) *Engine {
	e := &Engine{
		plan:      plan,
		rng:       rand.New(rand.NewPCG(plan.Seed, 0x5eed5eed)),
		wrng:      rand.New(rand.NewPCG(plan.Seed, 0x77071d)),
		replay:    sched,
		tasks:     make([]*Task, 0, 2*len(plan.Ops)+256),
		hist:      newHistory(),
		disks:     map[string]*Disk{},
		stores:    map[string]*simStore{},
		listeners: map[string]http.Handler{},
		rwIDs:     map[uintptr]bool{},
		netMode:   map[string]string{},
		upCount:   map[string]int{},
		getCount:  map[string]int{},
		opTask:    make([]int, len(plan.Ops)),
		opDone:    make([]bool, len(plan.Ops)),
	}
	for i := range e.opTask {
		e.opTask[i] = -1
	}
	return e
}

func (e *Engine) nowMs() int64 { return time.Since(e.start).Milliseconds() }

func (e *Engine) ev(kind, task, text string) int {
	e.seq++
	e.hist.Events = append(e.hist.Events, Event{Seq: e.seq, Step: e.step, T: e.nowMs(), Kind: kind, Task: task, Text: text})
	return e.seq
}

func (e *Engine) violate(prop, kind, sig, detail string) {
	for _, v := range e.violations {
		if v.Property == prop && v.Kind == kind && v.Sig == sig {
			return
		}
	}
	e.violations = append(e.violations, Violation{Property: prop, Kind: kind, Sig: sig, Detail: detail})
}

// ---------------------------------------------------------------------------------
// hooks called from pike

func (e *Engine) shard(key []byte, zones uint64) uint64 {
	switch e.plan.ShardMode {
	case "one":
		return 0
	case "two":
		h := fnv.New64a()
		h.Write(key)
		return h.Sum64() % 2
	}
	h := fnv.New64a()
	var s [8]byte
	for i := 0; i < 8; i++ {
		s[i] = byte(e.plan.Seed >> (8 * i))
	}
	h.Write(s[:])
	h.Write(key)
	return h.Sum64() % zones
}

//go:norace
func (e *Engine) listen(addr string, h http.Handler) error {
	// (hidden from the race detector like the scheduler's own hand-offs: the lock must not
	// order the accesses of the tasks that pass through here)
	raceDisable()
	e.hookMu.Lock()
	defer func() {
		e.hookMu.Unlock()
		raceEnable()
	}()
	if _, ok := e.listeners[addr]; ok {
		return errors.New("listen tcp " + addr + ": bind: address already in use")
	}
	e.listeners[addr] = h
	return nil
}

//go:norace
func (e *Engine) closeListener(addr string, h http.Handler) {
	// (hidden from the race detector like the scheduler's own hand-offs: the lock must not
	// order the accesses of the tasks that pass through here)
	raceDisable()
	e.hookMu.Lock()
	defer func() {
		e.hookMu.Unlock()
		raceEnable()
	}()
	if cur, ok := e.listeners[addr]; ok && cur == h {
		delete(e.listeners, addr)
		e.closedAddrs = append(e.closedAddrs, addr)
	}
}

//go:norace
func (e *Engine) drainClosedAddrs() []string {
	// (hidden from the race detector like the scheduler's own hand-offs: the lock must not
	// order the accesses of the tasks that pass through here)
	raceDisable()
	e.hookMu.Lock()
	defer func() {
		e.hookMu.Unlock()
		raceEnable()
	}()
	c := e.closedAddrs
	e.closedAddrs = nil
	sort.Strings(c)
	return c
}

//go:norace
func (e *Engine) handler(addr string) http.Handler {
	// (hidden from the race detector like the scheduler's own hand-offs: the lock must not
	// order the accesses of the tasks that pass through here)
	raceDisable()
	e.hookMu.Lock()
	defer func() {
		e.hookMu.Unlock()
		raceEnable()
	}()
	return e.listeners[addr]
}

//go:norace
func (e *Engine) clearListeners() {
	// (hidden from the race detector like the scheduler's own hand-offs: the lock must not
	// order the accesses of the tasks that pass through here)
	raceDisable()
	e.hookMu.Lock()
	defer func() {
		e.hookMu.Unlock()
		raceEnable()
	}()
	for k := range e.listeners {
		delete(e.listeners, k)
	}
}

func (e *Engine) dial(addr string, timeout time.Duration) (net.Conn, error) {
	mode := e.getNet(addr)
	switch mode {
	case "down":
		return nil, errors.New("dial tcp " + addr + ": connect: connection refused")
	case "blackhole":
		time.Sleep(timeout)
		return nil, errors.New("dial tcp " + addr + ": i/o timeout")
	}
	return fakeConn{}, nil
}

//go:norace
func (e *Engine) getNet(addr string) string { return e.netMode[addr] }

//go:norace
func (e *Engine) curTask() *Task {
	raceDisable()
	defer raceEnable()
	id := goid()
	n := int(e.ntasks.Load())
	for i := n - 1; i >= 0; i-- {
		if e.tasks[i].goid == id {
			return e.tasks[i]
		}
	}
	return nil
}

func yieldHook(kind int, try func() bool, undo func(), site string) {
	e := curEngine.Load()
	if e == nil {
		return
	}
	t := e.curTask()
	if t == nil {
		return
	}
	if t.inAtomic() {
		// atomic section: never park unless a lock is really unavailable
		if try == nil {
			return
		}
		raceDisable()
		ok := try()
		if ok {
			undo()
		}
		raceEnable()
		if ok {
			return
		}
	}
	t.parkYield(kind, try, undo, site)
}

func goHook(site string, f func()) {
	e := curEngine.Load()
	if e == nil {
		go f()
		return
	}
	if atomic.LoadInt32(&e.mode) != 0 {
		return // teardown / crash: the goroutine of a dying process never runs
	}
	parent := e.curTask()
	if parent == nil {
		// started by the controller itself (configuration applied at start-up or after a restart,
		// where the caller may wait for it): nothing else runs at that moment, a plain goroutine
		go f()
		return
	}
	pid := parent.ID
	name := fmt.Sprintf("%s/%d", parent.Name, parent.children)
	parent.children++
	t := e.newTask(name, "go:"+site, -1, func(*Task) { f() })
	t.Parent = pid
	e.spawn(t)
}

// ---------------------------------------------------------------------------------
// tasks

//go:norace
func (e *Engine) newTask(name, kind string, op int, fn func(t *Task)) *Task {
	t := &Task{ID: int(e.ntasks.Load()), Name: name, Kind: kind, OpIdx: op, Parent: -1, e: e, fn: fn, weight: 1}
	raceDisable()
	t.resume = make(chan int)
	raceEnable()
	if len(e.tasks) >= cap(e.tasks) {
		panic("sim: too many tasks")
	}
	e.tasks = append(e.tasks, t)
	e.ntasks.Add(1)
	return t
}

func (e *Engine) spawn(t *Task) {
	go func() {
		t.setGoid(goid())
		defer func() {
			r := recover()
			t.finish(r)
		}()
		t.parkYield(KPlain, nil, nil, "sim.start")
		t.fn(t)
	}()
}

//go:norace
func (t *Task) setGoid(id uint64) { t.goid = id }

//go:norace
func (e *Engine) release(t *Task, op int) {
	raceRelease(unsafe.Pointer(&t.token))
	raceDisable()
	t.resume <- op
	raceEnable()
}

func (e *Engine) wait() {
	raceDisable()
	synctest.Wait()
	raceEnable()
}

// ---------------------------------------------------------------------------------
// configuration

func (e *Engine) registerStores() {
	for _, cfg := range e.plan.Configs {
		for _, c := range cfg.Caches {
			if c.Store != "" {
				if _, ok := e.stores[c.Store]; !ok {
					s := &simStore{e: e, url: c.Store}
					e.stores[c.Store] = s
					e.disks[c.Store] = newDisk()
					pikestore.VerifRegisterStore(c.Store, s)
				}
			}
		}
	}
}

func (e *Engine) unregisterStores() {
	for url := range e.stores {
		pikestore.VerifUnregisterStore(url)
	}
}

// applyConfig performs what main.update() does after reading the configuration.
func applyConfig(cfg *Config) error {
	resetAll(cfg)
	return pikeserver.Start()
}

func (e *Engine) watchEvictions(cfg *Config) {
	for _, c := range cfg.Caches {
		d := pikecache.GetDispatcher(c.Name)
		if d == nil {
			continue
		}
		name := c.Name
		d.VerifWatchEvictions(func(shard int, key string) {
			e.noteEvict(fmt.Sprintf("%s|%d|%s", name, shard, key))
		})
	}
}

//go:norace
func (e *Engine) noteEvict(s string) { e.evicted = append(e.evicted, s) }

//go:norace
func (e *Engine) drainEvicted() []string {
	ev := e.evicted
	e.evicted = nil
	return ev
}

// Poisoned: a run ended with tasks that never complete; they may hold locks of pike's
// process-wide registries, so these are not reset (the reset could wait for ever) and the
// process must not execute another run.
var Poisoned atomic.Bool

func (e *Engine) teardown() {
	atomic.StoreInt32(&e.mode, 1)
	if len(e.hist.Stuck) > 0 {
		Poisoned.Store(true)
		e.unregisterStores()
		e.clearListeners()
		return
	}
	pikeserver.Reset(nil)
	pikeupstream.ResetWithOnStats(nil, nil)
	pikelocation.Reset(nil)
	pikecache.ResetDispatchers(nil)
	e.unregisterStores()
	e.clearListeners()
}

// ---------------------------------------------------------------------------------
// main loop

type action struct {
	name   string
	weight float64
	kind   int // 0 run, 1 up, 2 store, 3 start, 4 clock
	task   *Task
	ms     int
}

func (e *Engine) run() *Outcome {
	curEngine.Store(e)
	defer curEngine.Store(nil)
	e.start = time.Now()
	p := e.plan
	if p.MaxSteps == 0 {
		p.MaxSteps = 600
	}
	for _, cfg := range p.Configs {
		for _, u := range cfg.Upstreams {
			for _, s := range u.Servers {
				a := strings.TrimPrefix(strings.TrimPrefix(s.Addr, "http://"), "https://")
				if _, ok := e.netMode[a]; !ok {
					e.netMode[a] = "up"
				}
			}
		}
	}
	e.registerStores()
	resetCompressDefaults()
	e.ev("config", "", fmt.Sprintf("apply config 0 (%s)", cfgSummary(&p.Configs[0])))
	if err := applyConfig(&p.Configs[0]); err != nil {
		e.ev("config-error", "", err.Error())
	}
	e.watchEvictions(&p.Configs[0])
	e.wait()

	forced := 0
	for {
		e.wait()
		e.observe()
		if e.onStep != nil {
			e.onStep(e)
		}
		if e.finished() {
			break
		}
		if e.step >= p.MaxSteps {
			e.hist.BudgetHit = true
			e.ev("budget", "", "step budget exhausted")
			break
		}
		acts := e.enabled()
		var a *action
		nonClock := 0
		for i := range acts {
			if acts[i].kind != 4 {
				nonClock++
			}
		}
		if nonClock == 0 {
			// nothing can move except time
			if !e.timeCanHelp() || forced > 40 {
				e.reportStuck()
				break
			}
			ms := 1000
			if forced >= 12 {
				ms = 60_000
			}
			if forced >= 24 {
				ms = 3_600_000
			}
			forced++
			a = &action{name: fmt.Sprintf("clock:+%dms!", ms), kind: 4, ms: ms}
		} else {
			forced = 0
			a = e.choose(acts)
		}
		e.step++
		e.sched = append(e.sched, a.name)
		e.apply(a)
	}
	e.hist.Steps = e.step
	e.hist.EndT = e.nowMs()
	out := &Outcome{Plan: p, Schedule: e.sched, Hist: e.hist}
	e.teardown()
	if os.Getenv("VSIM_NO_DRAIN") == "" {
		// let the goroutines that only leave on their next tick (health checkers of stopped
		// upstreams, probes of black-holed servers) see that they were stopped, so that the
		// bubble ends without blocked goroutines whenever no task was abandoned
		time.Sleep(11 * time.Second)
		e.wait()
	}
	out.Violations = e.violations
	out.Hash = e.hist.Hash()
	return out
}

// liveTasks: tasks that are neither done nor dead (maintained by observe).
func (e *Engine) liveTasks() []*Task {
	e.refreshLive()
	return e.live
}

func (e *Engine) refreshLive() {
	n := int(e.ntasks.Load())
	for ; e.seenTasks < n; e.seenTasks++ {
		e.live = append(e.live, e.tasks[e.seenTasks])
	}
	keep := e.live[:0]
	for _, t := range e.live {
		s := t.getState()
		if (s == tsDone && t.seenState == tsDone) || s == tsDead {
			continue
		}
		keep = append(keep, t)
	}
	e.live = keep
}

func (e *Engine) finished() bool {
	return e.nextOp >= len(e.plan.Ops) && len(e.liveTasks()) == 0
}

// timeCanHelp: some live task waits for something only the clock can end.
func (e *Engine) timeCanHelp() bool {
	live := e.liveTasks()
	if len(live) == 0 {
		// only un-started ops behind a barrier that cannot clear: nothing to wait for
		return false
	}
	return true
}

func (e *Engine) reportStuck() {
	e.stuck = true
	for _, t := range e.liveTasks() {
		k, site := t.getSite()
		st := t.getState()
		desc := fmt.Sprintf("%s state=%s kind=%d site=%s last=%s", t.Name, stateNames[st], k, site, t.lastSite)
		e.hist.Stuck = append(e.hist.Stuck, desc)
	}
	e.ev("stuck", "", strings.Join(e.hist.Stuck, " || "))
}

// observe brings the controller's view up to date after synctest.Wait.
func (e *Engine) observe() {
	live := e.liveTasks()
	n := len(live)
	tasksOf := func(i int) *Task { return live[i] }
	for i := 0; i < n; i++ {
		t := tasksOf(i)
		st := t.getState()
		if st == tsDead {
			continue
		}
		if !t.started && st != tsNew {
			t.started = true
			if t.Parent >= 0 || strings.HasPrefix(t.Kind, "go:") {
				e.ev("spawn", t.Name, t.Kind)
			}
		}
		t.blocked = st == tsRunning
		if st == t.seenState {
			continue
		}
		prev := t.seenState
		t.seenState = st
		switch st {
		case tsUpstream:
			e.onUpArrive(t)
		case tsStore:
			e.onStoreCall(t)
		case tsDone:
			e.onTaskDone(t)
		case tsParked:
			if prev == tsUpstream && t.timedOut {
				e.onUpTimeout(t)
			}
		}
	}
	e.flushInlineStores()
	for _, a := range e.drainClosedAddrs() {
		e.ev("listener-closed", "", a)
	}
	if e.closedUse > 0 {
		e.hist.Probes["store-used-after-close"] += e.closedUse
		e.closedUse = 0
	}
	if ev := e.drainEvicted(); len(ev) > 0 {
		sort.Strings(ev)
		for _, x := range ev {
			e.ev("evict", "", x)
		}
		e.evLog = append(e.evLog, ev...)
		e.hist.Probes["evictions"] += len(ev)
	}
	// coalescing facts: a request seen natively blocked inside pike waits behind a
	// fetch; the task that ran in the step in which it left that state released it
	for i := 0; i < n; i++ {
		t := tasksOf(i)
		if t.rec == nil {
			continue
		}
		// a request parked right before a channel receive is about to wait for a fetch; if
		// the sender is already blocked on it the receive completes without the request ever
		// being seen blocked: it is a coalesced request all the same, released by the task
		// that had been blocked in its send
		if k, _ := t.getSite(); t.getState() == tsParked && k == KRecv && len(t.rec.Ups) == 0 {
			t.atRecv = true
		} else if t.atRecv && !t.blocked {
			t.atRecv = false
			if t.rec.ReleasedBy == -1 && !t.wasBlocked {
				by := -2
				for j := 0; j < n; j++ {
					u := tasksOf(j)
					if u != t && u.prevSendBlocked && !u.blocked {
						by = u.ID
					}
				}
				t.rec.ReleasedBy = by
				t.rec.ReleasedSeq = e.seq
				if t.rec.BlockedSeq == 0 {
					t.rec.BlockedSeq = e.seq
				}
				e.hist.Probes["waiter-registered-not-waiting-at-completion"]++
				if debugTrace {
					e.ev("released", t.Name, fmt.Sprintf("without blocking, by task %d", by))
				}
			}
		}
		if t.blocked && !t.wasBlocked && len(t.rec.Ups) > 0 {
			// a fetcher blocked while handing its result to a waiter: not a coalesced request
			t.sendBlocked = true
			e.hist.Probes["sender-blocked-on-unready-waiter"]++
		}
		if t.sendBlocked {
			if !t.blocked {
				t.sendBlocked = false
			}
			t.wasBlocked = false
			continue
		}
		if t.blocked && !t.wasBlocked {
			if t.rec.BlockedSeq == 0 {
				t.rec.BlockedSeq = e.seq
			}
			e.hist.Probes["request-blocked-behind-fetch"]++
			if debugTrace {
				e.ev("blocked", t.Name, "")
			}
		}
		if !t.blocked && t.wasBlocked {
			by := -2
			if e.lastRun != nil && e.lastRun != t {
				by = e.lastRun.ID
			}
			t.rec.ReleasedBy = by
			t.rec.ReleasedSeq = e.seq
			if debugTrace {
				e.ev("released", t.Name, fmt.Sprintf("by task %d", by))
			}
		}
		t.wasBlocked = t.blocked
	}
	for i := 0; i < n; i++ {
		t := tasksOf(i)
		t.prevSendBlocked = t.sendBlocked && t.blocked
	}
	// abstract state for the reach measure
	e.noteState()
}

func (e *Engine) enabled() []action {
	var acts []action
	live := e.liveTasks()
	n := len(live)
	// poll lock waiters
	for i := 0; i < n; i++ {
		t := live[i]
		if t.isLockWait() {
			e.release(t, opPoll)
			e.wait()
		}
	}
	// sync.RWMutex prefers writers: once a writer has called Lock and waits for the readers to
	// leave, new RLock calls wait behind it (a reader that takes the read lock a second time
	// then deadlocks with it). The probes alone cannot show that - the waiting writer of the
	// simulation has not really called Lock - so a blocked writer of a mutex that is also read-
	// locked somewhere may "make its call" (action announce); from then on readers of that
	// mutex are held back until it got the lock.
	pendingW := map[uintptr]bool{}
	for i := 0; i < n; i++ {
		t := live[i]
		if !t.isLockWait() {
			t.announced = false
			continue
		}
		k, id := t.getLock()
		if k == KRLock && id != 0 {
			e.rwIDs[id] = true
		}
		if _, ok := t.getProbe(); k == KLock && !ok && t.announced {
			pendingW[id] = true
		}
	}
	withheldOnly := []action{}
	for i := 0; i < n; i++ {
		t := live[i]
		switch t.getState() {
		case tsParked:
			if t.isLockWait() {
				k, id := t.getLock()
				if _, ok := t.getProbe(); !ok {
					if k == KLock && id != 0 && e.rwIDs[id] && !t.announced {
						acts = append(acts, action{name: "announce:" + t.Name, weight: t.weight, kind: 6, task: t})
					}
					continue
				}
				if k == KRLock && pendingW[id] {
					continue
				}
				t.announced = false
			}
			acts = append(acts, action{name: "run:" + t.Name, weight: t.weight, kind: 0, task: t})
		case tsUpstream:
			up := e.upOf(t)
			if up == nil {
				continue
			}
			if up.Reply.Fault == "hang" {
				continue // only the clock ends it
			}
			a := action{name: "up:" + t.Name, weight: 1, kind: 1, task: t}
			if e.withheld(up.Key) {
				withheldOnly = append(withheldOnly, a)
				continue
			}
			acts = append(acts, a)
		case tsStore:
			a := action{name: "st:" + t.Name, weight: 1, kind: 2, task: t}
			if e.plan.WithholdStore {
				withheldOnly = append(withheldOnly, a)
			} else {
				acts = append(acts, a)
			}
		}
		if !t.cancelled && t.getCancel() != nil && t.getState() != tsNew {
			// the client of this request may disconnect now
			acts = append(acts, action{name: "cancel:" + t.Name, weight: 0.15, kind: 5, task: t})
		}
	}
	if e.nextOp < len(e.plan.Ops) {
		op := &e.plan.Ops[e.nextOp]
		ok := true
		if op.Barrier || e.plan.Sequential {
			for e.doneUpTo < e.nextOp && e.opDone[e.doneUpTo] {
				e.doneUpTo++
			}
			ok = e.doneUpTo >= e.nextOp
			// background goroutines of earlier ops (e.g. server close) do not hold a barrier
		}
		if ok && op.Quiesce && len(live) > 0 {
			ok = false
		}
		if ok && op.Kind == OpReload {
			// configuration updates are applied one at a time (main.go runs update()
			// from a single watcher loop)
			for _, t := range live {
				if t.Kind == "reload" {
					ok = false
				}
			}
		}
		if ok {
			acts = append(acts, action{name: fmt.Sprintf("start:%d", e.nextOp), weight: 1.5, kind: 3})
		}
	}
	if len(acts) == 0 && len(withheldOnly) > 0 {
		acts = append(acts, withheldOnly...)
	}
	if e.plan.ClockWeight > 0 && len(e.plan.ClockMenuMs) > 0 && len(acts) > 0 {
		w := e.plan.ClockWeight / float64(len(e.plan.ClockMenuMs))
		for _, ms := range e.plan.ClockMenuMs {
			acts = append(acts, action{name: fmt.Sprintf("clock:+%dms", ms), weight: w, kind: 4, ms: ms})
		}
	}
	return acts
}

func (e *Engine) withheld(key string) bool {
	for _, k := range e.plan.Withhold {
		if k == key || k == "*" {
			return true
		}
	}
	return false
}

func (e *Engine) choose(acts []action) *action {
	// replay: take the recorded action if it is enabled, skip recorded actions that
	// are not; when the recording is exhausted fall back to the default policy.
	if e.replay != nil {
		for e.rpos < len(e.replay) {
			name := strings.TrimSuffix(e.replay[e.rpos], "!")
			e.rpos++
			for i := range acts {
				if acts[i].name == name {
					return &acts[i]
				}
			}
			if strings.HasPrefix(name, "clock:") {
				var ms int
				fmt.Sscanf(name, "clock:+%dms", &ms)
				if ms > 0 {
					return &action{name: name, kind: 4, ms: ms}
				}
			}
		}
		// default policy: first non-clock action in (kind,task) order
		sort.SliceStable(acts, func(i, j int) bool { return acts[i].kind < acts[j].kind && acts[j].kind == 4 })
		for i := range acts {
			if acts[i].kind != 4 {
				return &acts[i]
			}
		}
		return &acts[0]
	}
	switch e.plan.Policy {
	case "fifo":
		for i := range acts {
			if acts[i].kind != 4 {
				return &acts[i]
			}
		}
	}
	total := 0.0
	for i := range acts {
		total += acts[i].weight
	}
	x := e.rng.Float64() * total
	for i := range acts {
		x -= acts[i].weight
		if x <= 0 {
			return &acts[i]
		}
	}
	return &acts[len(acts)-1]
}

func (e *Engine) apply(a *action) {
	e.lastRun = nil
	switch a.kind {
	case 0:
		t := a.task
		e.lastRun = t
		_, site := t.getSite()
		t.lastSite = site
		if debugTrace {
			e.ev("run", t.Name, site)
		}
		e.release(t, opRun)
	case 1:
		e.completeUp(a.task)
	case 2:
		e.completeStore(a.task)
	case 3:
		e.startOp(e.nextOp)
		e.nextOp++
	case 4:
		e.ev("clock", "", fmt.Sprintf("+%dms", a.ms))
		time.Sleep(time.Duration(a.ms) * time.Millisecond)
	case 6:
		a.task.announced = true
		e.hist.Probes["writer-waits-on-rwmutex"]++
	case 5:
		t := a.task
		t.cancelled = true
		if t.rec != nil {
			t.rec.Cancelled = true
		}
		e.hist.FaultFired["client-disconnect"]++
		if t.blocked {
			e.hist.FaultFired["client-disconnect-while-parked-behind-fetch"]++
		}
		e.ev("client-gone", t.Name, "")
		t.getCancel()()
	}
	// re-draw priorities now and then (policy "prio" / "freeze")
	if e.replay == nil {
		switch e.plan.Policy {
		case "prio", "freeze":
			if e.rng.IntN(12) == 0 {
				e.redrawWeights()
			}
		}
	}
}

func (e *Engine) drawWeight() float64 {
	switch e.plan.Policy {
	case "prio":
		return []float64{0.05, 0.3, 1, 1, 3, 10}[e.rng.IntN(6)]
	case "freeze":
		if e.rng.IntN(3) == 0 {
			return 0.01
		}
		return 1
	}
	return 1
}

func (e *Engine) redrawWeights() {
	for _, t := range e.liveTasks() {
		t.weight = e.drawWeight()
	}
}

func (e *Engine) noteState() {
	// canonical abstract state: sorted multiset (counts capped at 2) of what every
	// live task is doing
	cnt := map[string]int{}
	for _, t := range e.liveTasks() {
		k, site := t.getSite()
		st := t.getState()
		kind := t.Kind
		if i := strings.IndexByte(kind, ':'); i > 0 {
			kind = kind[:i]
		}
		var s string
		switch st {
		case tsParked:
			s = kind + "@" + site
		case tsRunning:
			s = fmt.Sprintf("%s!blocked(%d)", kind, k)
		default:
			s = kind + ":" + stateNames[st]
		}
		if cnt[s] < 2 {
			cnt[s]++
		}
	}
	if len(cnt) == 0 {
		return
	}
	parts := make([]string, 0, len(cnt))
	for s, c := range cnt {
		parts = append(parts, fmt.Sprintf("%s*%d", s, c))
	}
	sort.Strings(parts)
	e.hist.States[strings.Join(parts, ";")] = struct{}{}
}
