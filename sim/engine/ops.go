package engine

import (
	"context"
	"fmt"
	"net/http"
	"net/http/httptest"
	"runtime"
	"sort"
	"strconv"
	"strings"
	"sync/atomic"
	"time"

	pikecache "github.com/vicanso/pike/cache"
	pikeconfig "github.com/vicanso/pike/config"
	pikelocation "github.com/vicanso/pike/location"
	pikeserver "github.com/vicanso/pike/server"
	pikestore "github.com/vicanso/pike/store"
	pikeupstream "github.com/vicanso/pike/upstream"
)

// ---------------------------------------------------------------------------------
// config conversion

func toCompress(c *Config) []pikeconfig.CompressConfig {
	var out []pikeconfig.CompressConfig
	for _, x := range c.Compresses {
		out = append(out, pikeconfig.CompressConfig{Name: x.Name, Levels: x.Levels})
	}
	return out
}
func toCaches(c *Config) []pikeconfig.CacheConfig {
	var out []pikeconfig.CacheConfig
	for _, x := range c.Caches {
		out = append(out, pikeconfig.CacheConfig{Name: x.Name, Size: x.Size, HitForPass: x.HitForPass, Store: x.Store})
	}
	return out
}
func toUpstreams(c *Config) []pikeconfig.UpstreamConfig {
	var out []pikeconfig.UpstreamConfig
	for _, x := range c.Upstreams {
		u := pikeconfig.UpstreamConfig{Name: x.Name, HealthCheck: x.HealthCheck, Policy: x.Policy, AcceptEncoding: x.AcceptEncoding}
		for _, s := range x.Servers {
			u.Servers = append(u.Servers, pikeconfig.UpstreamServerConfig{Addr: s.Addr, Backup: s.Backup})
		}
		out = append(out, u)
	}
	return out
}
func toLocations(c *Config) []pikeconfig.LocationConfig {
	var out []pikeconfig.LocationConfig
	for _, x := range c.Locations {
		out = append(out, pikeconfig.LocationConfig{Name: x.Name, Upstream: x.Upstream, Prefixes: x.Prefixes, Rewrites: x.Rewrites,
			QueryStrings: x.QueryStrings, RespHeaders: x.RespHeaders, ReqHeaders: x.ReqHeaders, Hosts: x.Hosts, ProxyTimeout: x.ProxyTimeout})
	}
	return out
}
func toServers(c *Config) []pikeconfig.ServerConfig {
	var out []pikeconfig.ServerConfig
	for _, x := range c.Servers {
		out = append(out, pikeconfig.ServerConfig{Addr: x.Addr, Locations: x.Locations, Cache: x.Cache, Compress: x.Compress,
			CompressMinLength: x.CompressMinLength, CompressContentTypeFilter: x.CompressContentTypeFilter})
	}
	return out
}

func cfgSummary(c *Config) string {
	return fmt.Sprintf("%d compress, %d caches, %d upstreams, %d locations, %d servers", len(c.Compresses), len(c.Caches), len(c.Upstreams), len(c.Locations), len(c.Servers))
}

// ---------------------------------------------------------------------------------
// starting operations

var dummyServer = &http.Server{}

func (e *Engine) startOp(i int) {
	op := &e.plan.Ops[i]
	switch op.Kind {
	case OpReq:
		rec := &ReqRec{Op: i, Key: op.CacheKey(), Method: op.Method, Host: op.Host, URI: op.URI, Addr: op.Addr,
			ReqHeader: op.Header, Tag: op.Tag, ReturnSeq: -1, Epoch: e.epoch, ReleasedBy: -1}
		rec.Idx = len(e.hist.Reqs)
		e.hist.Reqs = append(e.hist.Reqs, rec)
		t := e.newTask(fmt.Sprintf("c%d", i), "req", i, e.clientFn(op))
		t.weight = e.drawWeight()
		t.rec = rec
		rec.Task = t.ID
		e.opTask[i] = t.ID
		rec.InvokeSeq = e.ev("invoke", t.Name, fmt.Sprintf("%s %s %s @%s hdr[%s]", op.Method, op.Host, op.URI, op.Addr, hdrString(op.Header)))
		rec.InvokeT = e.nowMs()
		e.spawn(t)
		e.wait()
		e.release(t, opRun)
	case OpPurge:
		m := &MiscRec{Kind: "purge", Op: i, Cache: op.Cache, Key: op.Key, ReturnSeq: -1}
		e.hist.Misc = append(e.hist.Misc, m)
		cacheName, key := op.Cache, op.Key
		t := e.newTask(fmt.Sprintf("p%d", i), "purge", i, func(t *Task) {
			if cacheName == "" {
				// order of sync.Map.Range is not reproducible: run as one atomic section
				t.enterAtomic()
				defer t.leaveAtomic()
			}
			pikecache.RemoveHTTPCache(cacheName, []byte(key))
		})
		t.weight = e.drawWeight()
		m.Task = t.ID
		e.opTask[i] = t.ID
		m.InvokeSeq = e.ev("purge-invoke", t.Name, fmt.Sprintf("cache=%q key=%q", op.Cache, op.Key))
		m.InvokeT = e.nowMs()
		e.spawn(t)
		e.wait()
		e.release(t, opRun)
	case OpReload:
		m := &MiscRec{Kind: "reload", Op: i, ReturnSeq: -1, Text: strconv.Itoa(op.Config)}
		e.hist.Misc = append(e.hist.Misc, m)
		cfg := &e.plan.Configs[op.Config]
		t := e.newTask(fmt.Sprintf("r%d", i), "reload", i, func(t *Task) {
			err := applyConfigTask(t, cfg)
			if err != nil {
				t.panicVal = "reload error: " + err.Error()
			}
			e.watchEvictions(cfg)
		})
		t.weight = e.drawWeight()
		m.Task = t.ID
		e.opTask[i] = t.ID
		e.curCfg = op.Config
		m.InvokeSeq = e.ev("reload-invoke", t.Name, fmt.Sprintf("config %d (%s)", op.Config, cfgSummary(cfg)))
		m.InvokeT = e.nowMs()
		e.spawn(t)
		e.wait()
		e.release(t, opRun)
	case OpSleep:
		m := &MiscRec{Kind: "sleep", Op: i, Text: strconv.Itoa(op.Ms)}
		e.hist.Misc = append(e.hist.Misc, m)
		m.InvokeSeq = e.ev("sleep", "", fmt.Sprintf("+%dms", op.Ms))
		m.InvokeT = e.nowMs()
		time.Sleep(time.Duration(op.Ms) * time.Millisecond)
		m.ReturnSeq = m.InvokeSeq
		m.ReturnT = e.nowMs()
		e.opDone[i] = true
	case OpHealth:
		e.netMode[op.Server] = op.Net
		m := &MiscRec{Kind: "health", Op: i, Key: op.Server, Text: op.Net}
		e.hist.Misc = append(e.hist.Misc, m)
		m.InvokeSeq = e.ev("net", "", fmt.Sprintf("%s -> %s", op.Server, op.Net))
		m.InvokeT = e.nowMs()
		m.ReturnSeq, m.ReturnT = m.InvokeSeq, m.InvokeT
		e.hist.FaultFired["net:"+op.Net]++
		e.opDone[i] = true
	case OpCrash, OpStop:
		e.crashRestart(i, op)
	default:
		e.opDone[i] = true
	}
}

//go:norace
func (t *Task) enterAtomic() { t.noYield++ }

//go:norace
func (t *Task) leaveAtomic() { t.noYield-- }

// applyConfigTask is applyConfig run by a reload task; servers.Start iterates a
// sync.Map (order not reproducible), so that part is one atomic section.
func applyConfigTask(t *Task, cfg *Config) error {
	return applyConfigWith(cfg, func(f func() error) error {
		t.enterAtomic()
		defer t.leaveAtomic()
		return f()
	})
}

func applyConfigWith(cfg *Config, startAtomic func(func() error) error) error {
	// same five calls, same order as main.update()
	resetAll(cfg)
	return startAtomic(pikeserver.Start)
}

func (e *Engine) clientFn(op *Op) func(t *Task) {
	return func(t *Task) {
		h := e.handler(op.Addr)
		if h == nil {
			t.setResult(&ClientResult{Refused: true})
			return
		}
		var body *strings.Reader
		if op.Body != "" {
			body = strings.NewReader(op.Body)
		}
		var req *http.Request
		if body != nil {
			req = httptest.NewRequest(op.Method, op.URI, body)
		} else {
			req = httptest.NewRequest(op.Method, op.URI, nil)
		}
		req.Host = op.Host
		req.RequestURI = op.URI
		for _, kv := range op.Header {
			req.Header.Add(kv[0], kv[1])
		}
		ctx := context.WithValue(context.Background(), http.ServerContextKey, dummyServer)
		if op.Cancellable {
			var cancel context.CancelFunc
			ctx, cancel = context.WithCancel(ctx)
			t.setCancel(cancel)
		}
		req = req.WithContext(ctx)
		rw := newRW(op.Method)
		func() {
			defer func() {
				if r := recover(); r != nil {
					res := rw.res
					res.Aborted = true
					res.PanicVal = fmt.Sprint(r)
					t.setResult(res)
					return
				}
			}()
			var m0, m1 runtime.MemStats
			if e.plan.MeasureAlloc {
				runtime.ReadMemStats(&m0)
			}
			h.ServeHTTP(rw, req)
			res := rw.finish()
			if e.plan.MeasureAlloc {
				runtime.ReadMemStats(&m1)
				res.AllocBytes = int64(m1.TotalAlloc - m0.TotalAlloc)
			}
			t.setResult(res)
		}()
	}
}

//go:norace
func (t *Task) setResult(r *ClientResult) { t.res = r }

//go:norace
func (t *Task) setCancel(f func()) { t.cancel = f }

//go:norace
func (t *Task) getCancel() func() { return t.cancel }

//go:norace
func (t *Task) getResult() *ClientResult { return t.res }

//go:norace
func (t *Task) getPanic() (bool, string) { return t.panicked, t.panicVal }

// ---------------------------------------------------------------------------------
// origin

func (e *Engine) upOf(t *Task) *UpRec {
	for i := len(e.hist.Ups) - 1; i >= 0; i-- {
		u := e.hist.Ups[i]
		if u.Task == t.ID && !u.Answered && !u.TimedOut {
			return u
		}
	}
	return nil
}

func (e *Engine) onUpArrive(t *Task) {
	call := t.getUp()
	rec := t.rec
	key := ""
	reqIdx := -1
	if rec != nil {
		key = rec.Key
		reqIdx = rec.Idx
	}
	n := e.upCount[key]
	e.upCount[key] = n + 1
	u := &UpRec{Serial: len(e.hist.Ups) + 1, Task: t.ID, Req: reqIdx, Key: key, Target: call.Target, Call: call,
		ArriveT: e.nowMs(), ReplySeq: -1, Reply: e.plan.script(key, n), Epoch: e.epoch}
	// what the origin will answer is fixed on arrival (it depends on the request)
	e.prepareReply(u)
	u.ArriveSeq = e.ev("up-arrive", t.Name, fmt.Sprintf("#%d %s %s%s target=%s hdr[%s] body=%dB -> will answer %s", u.Serial, call.Method, call.Path, q(call.RawQuery), call.Target, hdrString(headerPairs(call.Header)), len(call.Body), replySummary(u)))
	e.hist.Ups = append(e.hist.Ups, u)
	if rec != nil {
		rec.Ups = append(rec.Ups, len(e.hist.Ups)-1)
	}
	if u.Reply.Fault != "" {
		e.hist.FaultFired["origin:"+u.Reply.Fault]++
	}
}

func q(s string) string {
	if s == "" {
		return ""
	}
	return "?" + s
}

func replySummary(u *UpRec) string {
	r := u.Reply
	if r.Fault == "err" || r.Fault == "hang" {
		return "fault=" + r.Fault
	}
	return fmt.Sprintf("%d enc=%q size=%d class=%s fault=%q hdr[%s] shareable=%v lifetime=%d", u.Call.status, r.Enc, r.Size, r.Class, r.Fault, hdrString(r.Header), u.Shareable, u.Lifetime)
}

// prepareReply decides the answer of the origin for an arrived request. The origin
// behaves like a real one for conditional and range requests.
func (e *Engine) prepareReply(u *UpRec) {
	r := u.Reply
	call := u.Call
	status := r.Status
	if status == 0 {
		status = 200
	}
	hdr := http.Header{}
	for _, kv := range r.Header {
		hdr.Add(kv[0], kv[1])
	}
	ctype := r.CType
	if ctype == "" {
		ctype = "text/plain; charset=utf-8"
	}
	hdr.Set("Content-Type", ctype)
	if r.ETag != "" {
		hdr.Set("ETag", r.ETag)
	}
	if r.LastMod != "" {
		hdr.Set("Last-Modified", r.LastMod)
	}
	clientKey := u.Key
	hdr.Set("X-Sim-Echo", fmt.Sprintf("%d|%s", u.Serial, clientKey))
	class := r.Class
	if class == "" {
		class = "text"
	}
	raw := makeBody(u.Serial, clientKey, class, r.Size)
	// conditional request handling of a real origin
	if status == 200 && (call.Method == "GET" || call.Method == "HEAD") {
		inm := call.Header.Get("If-None-Match")
		ims := call.Header.Get("If-Modified-Since")
		if (inm != "" && r.ETag != "" && inm == r.ETag) || (inm == "" && ims != "" && r.LastMod != "" && ims == r.LastMod) {
			status = 304
			raw = nil
		} else if rg := call.Header.Get("Range"); rg != "" && len(raw) > 0 {
			var a, b int
			if n, _ := fmt.Sscanf(rg, "bytes=%d-%d", &a, &b); n == 2 && a >= 0 && b >= a && b < len(raw) {
				status = 206
				hdr.Set("Content-Range", fmt.Sprintf("bytes %d-%d/%d", a, b, len(raw)))
				raw = raw[a : b+1]
			}
		}
	}
	u.BodyRaw = raw
	body := raw
	enc := r.Enc
	if status == 304 {
		enc = ""
	}
	if enc != "" {
		if r.Fault == "badenc" {
			body = append([]byte("\x00not-a-valid-stream\xff"), raw...)
		} else {
			body = encodeBody(enc, raw)
		}
		hdr.Set("Content-Encoding", wireEnc(enc))
	}
	if call.Method == "HEAD" {
		body = nil
	}
	hdr.Set("Content-Length", strconv.Itoa(len(body)))
	call.status = status
	call.header = hdr
	call.body = body
	call.fault = r.Fault
	if r.Fault == "abort" {
		call.abortAt = len(body) / 2
	}
	m := judgeReplyAdded(call.Method, status, hdr, e.addedCachingHeaders())
	u.Verdict = m
	u.Shareable = m.Shareable && r.Fault == ""
	u.Lifetime = m.Lifetime
}

func (e *Engine) completeUp(t *Task) {
	u := e.upOf(t)
	if u == nil {
		return
	}
	u.Answered = true
	u.ReplyT = e.nowMs()
	u.EndSeq = e.seq + 1
	u.EndT = e.nowMs()
	u.ReplySeq = e.ev("up-reply", t.Name, fmt.Sprintf("#%d %s", u.Serial, replySummary(u)))
	e.release(t, opRun)
}

func (e *Engine) onUpTimeout(t *Task) {
	for i := len(e.hist.Ups) - 1; i >= 0; i-- {
		u := e.hist.Ups[i]
		if u.Task == t.ID && !u.Answered && !u.TimedOut {
			u.TimedOut = true
			u.EndSeq = e.seq + 1
			u.EndT = e.nowMs()
			e.ev("up-timeout", t.Name, fmt.Sprintf("#%d caller gave up", u.Serial))
			e.hist.FaultFired["origin:timeout-fired"]++
			break
		}
	}
	t.clearTimedOut()
}

//go:norace
func (t *Task) clearTimedOut() { t.timedOut = false }

// ---------------------------------------------------------------------------------
// store

func (e *Engine) onStoreCall(t *Task) {
	c := t.getStore()
	s := &StoreRec{Serial: e.stCount, Task: t.ID, Op: c.Op, Key: c.Key, Fault: e.plan.storeFault(e.stCount), DoneSeq: -1, Len: len(c.Data), TTLms: c.TTL.Milliseconds(), URL: c.URL}
	e.stCount++
	if c.Op == "get" {
		if lst, ok := e.plan.GetFaults[c.Key]; ok {
			n := e.getCount[c.Key]
			e.getCount[c.Key] = n + 1
			if n < len(lst) {
				s.Fault = lst[n]
			}
		}
	}
	if s.Fault != "" {
		for _, lt := range e.liveTasks() {
			if lt.blocked && lt.rec != nil {
				e.hist.Probes["fault-with-waiters-present"]++
				break
			}
		}
	}
	s.CallSeq = e.ev("store-call", t.Name, fmt.Sprintf("#%d %s %q len=%d ttl=%dms fault=%q", s.Serial, c.Op, c.Key, len(c.Data), s.TTLms, s.Fault))
	e.hist.Stores = append(e.hist.Stores, s)
}

func (e *Engine) storeRecOf(t *Task) *StoreRec {
	for i := len(e.hist.Stores) - 1; i >= 0; i-- {
		if e.hist.Stores[i].Task == t.ID && e.hist.Stores[i].DoneSeq < 0 {
			return e.hist.Stores[i]
		}
	}
	return nil
}

func (e *Engine) completeStore(t *Task) {
	c := t.getStore()
	s := e.storeRecOf(t)
	if s == nil {
		return
	}
	if strings.HasPrefix(s.Fault, "delay") {
		// a slow call: it stays parked (with pike's locks held) for a few more steps
		n := 3
		fmt.Sscanf(s.Fault, "delay:%d", &n)
		if n > 0 {
			s.Fault = fmt.Sprintf("delay:%d", n-1)
			e.ev("store-slow", t.Name, fmt.Sprintf("#%d still pending", s.Serial))
			e.hist.FaultFired["store:delay"]++
			return
		}
		s.Fault = ""
	}
	e.applyStore(c, s.Fault, s.Serial)
	if c.err != nil {
		s.Err = c.err.Error()
	}
	s.T = e.nowMs()
	s.OutLen = len(c.out)
	s.CutAt, s.FullLen = c.cutAt, c.fullLen
	s.DoneSeq = e.ev("store-done", t.Name, fmt.Sprintf("#%d %s -> len=%d err=%q", s.Serial, c.Op, len(c.out), s.Err))
	if s.Fault != "" {
		k := s.Fault
		if i := strings.IndexByte(k, ':'); i > 0 {
			k = k[:i]
		}
		e.hist.FaultFired["store:"+k]++
	}
	e.release(t, opRun)
}

// applyStore executes a store call against the disk, with an optional fault.
func (e *Engine) applyStore(c *StoreCall, fault string, serial int) {
	now := e.nowMs()
	disk := e.disks[c.URL]
	if disk == nil {
		disk = newDisk()
		e.disks[c.URL] = disk
	}
	name, arg := fault, 0
	if i := strings.IndexByte(fault, ':'); i > 0 {
		name = fault[:i]
		arg, _ = strconv.Atoi(fault[i+1:])
	}
	switch c.Op {
	case "get":
		switch name {
		case "err":
			c.err = errSimStore
			return
		case "notfound":
			c.err = pikestore.ErrNotFound
			return
		}
		r, ok := disk.lookup(c.Key)
		if ok && r.expireMs != 0 {
			switch e.plan.StoreTTL {
			case "never":
			case "late":
				if now >= r.expireMs+3000 {
					ok = false
				}
			default:
				if now >= r.expireMs {
					ok = false
				}
			}
		}
		if !ok {
			c.err = pikestore.ErrNotFound
			return
		}
		data := append([]byte(nil), r.data...)
		switch name {
		case "trunc":
			if len(data) > 0 {
				data = data[:arg%len(data)]
			}
		case "cut":
			// torn record: only the first arg bytes made it to the medium
			if arg < len(data) {
				data = data[:arg]
				e.hist.FaultFired["store:cut-effective"]++
				c.cutAt = arg
				c.fullLen = len(r.data)
			}
		case "cutend":
			// torn record that lost its last arg bytes
			if arg > 0 && len(data) > 0 {
				n := len(data) - arg
				if n < 0 {
					n = 0
				}
				c.cutAt = n
				c.fullLen = len(r.data)
				data = data[:n]
				e.hist.FaultFired["store:cut-effective"]++
			}
		case "zerotail":
			// torn write of the other kind: the record has its full length but the last
			// arg bytes never reached the medium and read back as zeros
			if len(data) > 0 {
				n := arg
				if n > len(data) {
					n = len(data)
				}
				for i := len(data) - n; i < len(data); i++ {
					data[i] = 0
				}
			}
		case "garbage":
			x := uint64(arg)*2654435761 + 12345
			for i := range data {
				x = x*6364136223846793005 + 1442695040888963407
				data[i] = byte(x >> 33)
			}
		case "flip":
			if len(data) > 0 {
				bit := arg % (len(data) * 8)
				data[bit/8] ^= 1 << (bit % 8)
			}
		}
		c.out = data
	case "set":
		switch name {
		case "err":
			c.err = errSimStore
			return
		case "drop":
			return // acknowledged, silently lost
		}
		rec := diskRec{data: append([]byte(nil), c.Data...)}
		if c.TTL > 0 {
			rec.expireMs = now + c.TTL.Milliseconds()
		} else {
			// zero / negative ttl: badger treats it as already expired
			rec.expireMs = now
			if c.TTL == 0 {
				rec.expireMs = 0 // badger: WithTTL(0) -> ExpiresAt = now: expired; redis: 0 = no expiry
				rec.expireMs = now
			}
		}
		disk.pending = append(disk.pending, pendingWrite{key: c.Key, rec: rec})
		if e.wrng.IntN(3) == 0 {
			disk.sync() // the store happened to flush
		}
	case "delete":
		if name == "err" || name == "delerr" {
			c.err = errSimStore
			return
		}
		disk.pending = append(disk.pending, pendingWrite{key: c.Key, rec: diskRec{del: true}})
	}
}

// ---------------------------------------------------------------------------------
// completion of tasks

func (e *Engine) onTaskDone(t *Task) {
	panicked, pv := t.getPanic()
	if t.OpIdx >= 0 {
		e.opDone[t.OpIdx] = true
	}
	switch t.Kind {
	case "req":
		rec := t.rec
		rec.Res = t.getResult()
		if rec.Res == nil {
			rec.Res = &ClientResult{Aborted: true, PanicVal: pv}
		}
		rec.ReturnT = e.nowMs()
		rec.ReturnSeq = e.ev("return", t.Name, resultSummary(rec.Res))
	case "purge", "reload":
		for _, m := range e.hist.Misc {
			if m.Task == t.ID && m.ReturnSeq < 0 {
				if m.Kind == "purge" {
					e.checkDiskAfterPurge(t, m)
				}
				m.ReturnT = e.nowMs()
				txt := ""
				if panicked {
					txt = "PANIC " + pv
				} else if pv != "" {
					txt = pv
				}
				m.ReturnSeq = e.ev(m.Kind+"-return", t.Name, txt)
			}
		}
	default:
		txt := ""
		if panicked {
			txt = "PANIC " + pv
		}
		e.ev("exit", t.Name, txt)
	}
}

func resultSummary(r *ClientResult) string {
	if r.Refused {
		return "connection refused"
	}
	if r.Aborted {
		return fmt.Sprintf("ABORTED panic=%q (status=%d wrote=%dB)", r.PanicVal, r.Status, len(r.Body))
	}
	return fmt.Sprintf("%d x-status=%q age=%q enc=%q echo=%q len=%d hdr[%s]", r.Status, r.Header.Get("X-Status"), r.Header.Get("Age"), r.Header.Get("Content-Encoding"), r.Header.Get("X-Sim-Echo"), len(r.Body), hdrString(headerPairs(r.Header)))
}

// ---------------------------------------------------------------------------------
// crash / stop + restart

func (e *Engine) crashRestart(i int, op *Op) {
	m := &MiscRec{Kind: op.Kind, Op: i}
	e.hist.Misc = append(e.hist.Misc, m)
	m.InvokeSeq = e.ev(op.Kind, "", fmt.Sprintf("tasks alive=%d", len(e.liveTasks())))
	m.InvokeT = e.nowMs()
	// every goroutine of the old process is gone
	for _, t := range e.liveTasks() {
		t.markDead()
		if t.rec != nil {
			t.rec.Dead = true
			t.rec.DeadT = e.nowMs()
			t.rec.DeadSeq = e.seq
		}
		if t.OpIdx >= 0 {
			e.opDone[t.OpIdx] = true
		}
		e.ev("killed", t.Name, "")
	}
	for _, u := range e.hist.Ups {
		if !u.Answered && !u.TimedOut {
			u.TimedOut = true
			u.EndSeq = e.seq
			u.EndT = e.nowMs()
		}
	}
	urls := make([]string, 0, len(e.disks))
	for u := range e.disks {
		urls = append(urls, u)
	}
	sortStrings(urls)
	npend := 0
	for _, u := range urls {
		npend += len(e.disks[u].pending)
	}
	if op.Kind == OpCrash {
		// unsynced writes: each independently kept, lost or (if enabled) torn
		kept, lost, torn := 0, 0, 0
		for _, url := range urls {
			disk := e.disks[url]
			var keep []pendingWrite
			for _, p := range disk.pending {
				switch x := e.wrng.IntN(10); {
				case x < 5:
					keep = append(keep, p)
					kept++
				case x < 8 || !op.Tear || p.rec.del || len(p.rec.data) == 0:
					lost++
				default:
					cut := e.wrng.IntN(len(p.rec.data))
					if e.wrng.IntN(2) == 0 {
						p.rec.data = p.rec.data[:cut]
					} else {
						d := append([]byte(nil), p.rec.data...)
						for i := cut; i < len(d); i++ {
							d[i] = 0
						}
						p.rec.data = d
					}
					keep = append(keep, p)
					torn++
				}
			}
			disk.pending = keep
			disk.sync()
		}
		e.hist.FaultFired["crash"]++
		if npend > 0 {
			e.hist.FaultFired["crash-with-unsynced-writes"]++
		}
		e.hist.FaultFired["crash:write-lost"] += lost
		e.hist.FaultFired["crash:write-torn"] += torn
		e.hist.FaultFired["crash:write-kept"] += kept
		e.ev("disk", "", fmt.Sprintf("after kill: kept=%d lost=%d torn=%d", kept, lost, torn))
	} else {
		for _, url := range urls {
			e.disks[url].sync()
			if op.Wipe {
				e.disks[url] = newDisk()
			}
		}
		e.hist.FaultFired["stop"]++
	}
	// the old process image disappears
	atomic.StoreInt32(&e.mode, 1)
	pikeserver.Reset(nil)
	pikecache.ResetDispatchers(nil)
	e.clearListeners()
	atomic.StoreInt32(&e.mode, 0)
	pikeupstream.ResetWithOnStats(nil, nil)
	pikelocation.Reset(nil)
	resetCompressDefaults()
	for url, st := range e.stores {
		st.setClosed(false) // a new process opens its stores anew
		if op.NoStore {
			pikestore.VerifUnregisterStore(url)
		} else {
			pikestore.VerifRegisterStore(url, st)
		}
	}
	if op.NoStore {
		e.hist.FaultFired["restart-store-cannot-be-opened"]++
	}
	e.epoch++
	// restart with the current configuration on the same store
	cfg := &e.plan.Configs[e.curCfg]
	if err := applyConfig(cfg); err != nil {
		e.ev("config-error", "", err.Error())
	}
	e.watchEvictions(cfg)
	e.wait()
	m.ReturnSeq = e.ev("restarted", "", fmt.Sprintf("epoch %d listeners=%d", e.epoch, len(e.listeners)))
	m.ReturnT = e.nowMs()
	e.opDone[i] = true
}

//go:norace
func (t *Task) markDead() { t.state = tsDead }

// recordInlineStore notes a store call that completed inline (set-up, restart,
// atomic sections, InlineStore plans).
func (e *Engine) recordInlineStore(t *Task, c *StoreCall) {
	id := -1
	name := ""
	if t != nil {
		id = t.ID
		name = t.Name
	}
	s := &StoreRec{Serial: -1, Task: id, Op: c.Op, Key: c.Key, Len: len(c.Data), TTLms: c.TTL.Milliseconds(), T: e.nowMs(), URL: c.URL}
	if c.err != nil {
		s.Err = c.err.Error()
	}
	s.OutLen = len(c.out)
	s.name = name
	// logged by the controller at the next observation, in a canonical order: calls
	// made inside one atomic section (sync.Map iteration) have no reproducible order
	e.inlineBuf = append(e.inlineBuf, s)
}

func (e *Engine) flushInlineStores() {
	if len(e.inlineBuf) == 0 {
		return
	}
	buf := e.inlineBuf
	e.inlineBuf = nil
	sort.SliceStable(buf, func(i, j int) bool {
		if buf[i].Task != buf[j].Task {
			return buf[i].Task < buf[j].Task
		}
		return buf[i].URL < buf[j].URL
	})
	for _, s := range buf {
		s.CallSeq = e.ev("store-inline", s.name, fmt.Sprintf("%s %s %q len=%d ttl=%dms -> len=%d err=%q", s.URL, s.Op, s.Key, s.Len, s.TTLms, s.OutLen, s.Err))
		s.DoneSeq = s.CallSeq
		e.hist.Stores = append(e.hist.Stores, s)
	}
}

// checkDiskAfterPurge: when no request of the key overlapped the purge and its delete
// was not failed by the plan, the store of every covered cache must not hold the key.
func (e *Engine) checkDiskAfterPurge(t *Task, m *MiscRec) {
	e.flushInlineStores()
	for _, r := range e.hist.Reqs {
		if r.Key == m.Key && !r.Dead && (r.ReturnSeq < 0 || r.ReturnSeq > m.InvokeSeq) {
			return
		}
	}
	for _, s := range e.hist.Stores {
		if s.Task == t.ID && s.Op == "delete" && s.Err != "" {
			return
		}
	}
	cfg := &e.plan.Configs[e.curCfg]
	now := e.nowMs()
	any := false
	for _, c := range cfg.Caches {
		if c.Store == "" || (m.Cache != "" && m.Cache != c.Name) {
			continue
		}
		any = true
		if d := e.disks[c.Store]; d != nil {
			if rec, ok := d.lookup(m.Key); ok && (rec.expireMs == 0 || now < rec.expireMs) {
				m.DiskHas = true
			}
		}
	}
	m.DiskChecked = any
}

// addedCachingHeaders: Cache-Control / Set-Cookie / Age lines the locations of any of the plan's
// configurations add to every response (they reach pike's cacheability decision).
func (e *Engine) addedCachingHeaders() http.Header {
	var out http.Header
	for _, c := range e.plan.Configs {
		for _, l := range c.Locations {
			for _, kv := range kvPairs(l.RespHeaders) {
				switch http.CanonicalHeaderKey(kv[0]) {
				case "Cache-Control", "Set-Cookie", "Age":
					if out == nil {
						out = http.Header{}
					}
					out.Add(kv[0], kv[1])
				}
			}
		}
	}
	return out
}
