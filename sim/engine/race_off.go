//go:build !race

package engine

import "unsafe"

const RaceEnabled = false

func raceDisable()               {}
func raceEnable()                {}
func raceRelease(unsafe.Pointer) {}
func raceAcquire(unsafe.Pointer) {}
func raceErrors() int            { return 0 }

func RaceErrors() int { return 0 }
