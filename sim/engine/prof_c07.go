package engine

import "fmt"

// ---------------------------------------------------------------------------------
// C07 - hit-for-pass

func init() {
	register(&Profile{
		Name:     "C07",
		Property: "C07",
		Gen:      func(g *Gen) *Plan { return swarm(g, genC07(g), 0.25, 0.0) },
		Oracles:  []func(o *Outcome) []Violation{oracleC07, oracleC01as("C07"), livenessOracle("C07")},
		NonTrivial: func(o *Outcome) bool {
			return o.Hist.Probes["request-surely-inside-period"] > 0
		},
		Rule:         "seeded plans on one key: hit-for-pass in {unset, 0s, -1s, 1s, 2s, 5s, 300s}; origin answers alternate cacheable / uncacheable / failing; bursts of 1-6 concurrent requests before, during (replies withheld until every other action is exhausted: a request that can only proceed after another's reply is queueing) and after the period; default period bracketed at +299s / +302s. in a quarter of the plans a tenth of the clients disconnect at a scheduler-chosen step (fault client-disconnect). in a quarter of the store-less plans the unchanged configuration is applied again inside the period. non-trivial = at least one request lay surely inside a hit-for-pass period; distinct = distinct history hash",
		ExpectProbes: []string{"request-surely-inside-period", "burst-inside-period-withheld", "request-after-period", "default-period-299s", "default-period-302s", "probe-after-period-cacheable", "waiter-released-by-uncacheable-fetch"},
	})
}

func genC07(g *Gen) *Plan {
	hfpCfg := pick(g, "", "0s", "-1s", "1s", "2s", "5s", "300s")
	p := &Plan{Profile: "C07", Seed: g.Seed, Policy: g.policy(), ClockMenuMs: []int{100, 500, 1000}, ClockWeight: pick(g, 0.0, 0.03, 0.1), MaxSteps: 2500}
	cfg := baseConfig(1000, hfpCfg, "")
	withStore := g.p(0.3)
	if withStore {
		// persisted markers: the entry is pushed out of a one-entry shard by other keys (and the
		// instance may be stopped and started again) inside the period - the marker comes back
		// from the store and the key must keep passing without queueing
		cfg = baseConfig(8, hfpCfg, storeURL)
		p.ShardMode = "one"
		p.InlineStore = true
		// the store may keep a record beyond its TTL (lazily expiring stores do): the period ends
		// when pike's own clock says so
		p.StoreTTL = pick(g, "exact", "exact", "late", "never")
	}
	cfg.Locations[0].ProxyTimeout = "3s"
	p.Configs = []Config{cfg}
	hfp := hfpSeconds(&cfg, "c1")
	key := "GET " + hostA + " /p0"
	p.Withhold = []string{key}
	var s []Reply
	bad := func() Reply {
		if g.p(0.7) {
			return uncacheable(g, g.n(10, 200))
		}
		r := cacheable(3, 100)
		r.Fault = pick(g, "err", "badenc", "abort", "hang")
		if r.Fault == "badenc" {
			r.Enc = "snz"
		}
		if r.Fault == "abort" {
			r.Size = 600
		}
		return r
	}
	// first fetch fails / is uncacheable; passes inside the period get arbitrary
	// answers (they must not matter); later probes are cacheable or not
	for i := 0; i < 40; i++ {
		switch {
		case i == 0:
			s = append(s, bad())
		case g.p(0.5):
			s = append(s, cacheable(g.n(2, 6), g.n(10, 200)))
		default:
			s = append(s, bad())
		}
	}
	p.Scripts = map[string][]Reply{key: s}
	p.Default = cacheable(2, 50)
	req := func(barrier bool) Op {
		op := reqOp("GET", hostA, "/p0")
		op.Barrier = barrier
		return op
	}
	// phase 1: cold burst
	n := g.n(1, 4)
	for i := 0; i < n; i++ {
		p.Ops = append(p.Ops, req(false))
	}
	rounds := g.n(1, 3)
	for rd := 0; rd < rounds; rd++ {
		// inside the period
		var inside int
		if hfp >= 300 {
			inside = pick(g, 1000, 150_000, 299_000)
		} else {
			inside = g.n(0, max(0, hfp*1000-900))
		}
		p.Ops = append(p.Ops, sleepOp(inside, true))
		if !withStore && g.p(0.25) {
			// the unchanged configuration is applied again inside the period (an update that
			// touched something else): the cache and its markers stay
			p.Ops = append(p.Ops, Op{Kind: OpReload, Config: 0, Barrier: true}, Op{Kind: "noop", Barrier: true})
		}
		if withStore {
			ev := reqOp("GET", hostA, fmt.Sprintf("/evictor%d", rd))
			ev.Barrier = true
			p.Ops = append(p.Ops, ev)
			if g.p(0.3) {
				p.Ops = append(p.Ops, Op{Kind: OpStop, Barrier: true})
			}
		}
		for i := 0; i < g.n(1, 6); i++ {
			p.Ops = append(p.Ops, req(i == 0))
		}
		// after the period
		after := hfp*1000 + pick(g, 1100, 2000, 2500)
		if hfp >= 300 {
			after = pick(g, 302_000, 303_000)
		}
		p.Ops = append(p.Ops, sleepOp(after-inside, true))
		for i := 0; i < g.n(1, 4); i++ {
			p.Ops = append(p.Ops, req(i == 0))
		}
		p.Ops = append(p.Ops, req(true))
	}
	return p
}

// oracleC01as re-labels the single flight oracle (used after the period lapsed).
func oracleC01as(prop string) func(o *Outcome) []Violation {
	return func(o *Outcome) []Violation {
		if o.Plan.Configs[0].Caches[0].Size < 1000 {
			return nil // the single-flight oracle assumes that nothing is evicted
		}
		vs := oracleC01(o)
		for i := range vs {
			vs[i].Property = prop
		}
		return vs
	}
}

func oracleC07(o *Outcome) []Violation {
	var out []Violation
	cfg := &o.Plan.Configs[0]
	views := o.Views()
	byReq := map[*ReqRec]*View{}
	for _, v := range views {
		byReq[v.R] = v
	}
	// a request released by a fetch that turned out uncacheable (or failed) proceeds to the
	// upstream itself: it is never answered from whatever the entry still holds
	for _, v := range views {
		r := v.R
		if r.ReleasedBy < 0 || r.ReturnSeq < 0 {
			continue
		}
		f := o.reqOfTask(r.ReleasedBy)
		if f == nil || f.Key != r.Key || len(f.Ups) != 1 {
			continue
		}
		fu := o.Hist.Ups[f.Ups[0]]
		if fu.Shareable || fu.Verdict.Ambiguous || fu.EndSeq == 0 {
			continue
		}
		o.Hist.Probes["waiter-released-by-uncacheable-fetch"]++
		if len(v.OwnUps) == 0 && (v.Kind == "origin" || v.Kind == "unattributed") {
			out = append(out, violation("C07", "released-waiter-answered-without-upstream", "request released by an uncacheable / failed fetch was answered without contacting the upstream",
				"client op %d %s was released by the fetcher of #%d (not shareable: %s) and then answered (status %d, label %q, reply #%d) without an upstream request of its own", r.Op, r.Key, fu.Serial, faultOf(fu), r.Res.Status, v.XStatus, v.Serial))
		}
	}
	withheld := len(o.Plan.Withhold) > 0
	for _, u0 := range o.Hist.Ups {
		if u0.Req < 0 {
			continue
		}
		c0 := o.Hist.Reqs[u0.Req]
		if c0.Method != "GET" && c0.Method != "HEAD" {
			continue
		}
		hfp := hfpSeconds(cfg, cacheOf(cfg, c0.Addr))
		if u0.Shareable || u0.Verdict.Ambiguous || c0.ReturnSeq < 0 || u0.EndSeq == 0 {
			continue
		}
		if !surelyFetcher(o, u0, hfp) {
			continue
		}
		// marker set in [end(u0), return(c0)], in force while now <= set + hfp
		earliestLapse := secFloor(endT(u0)) + int64(hfp)
		if cfg.Caches[0].Store != "" {
			// a persisted marker lives for (expiry - now) whole seconds counted from the instant it
			// was saved, i.e. it may lapse up to one second before the in-memory one would
			earliestLapse--
		}
		latestLapse := secFloor(c0.ReturnT) + int64(hfp)
		var inside []*View
		for _, v := range views {
			c := v.R
			if c == c0 || c.Key != c0.Key || c.InvokeSeq < c0.ReturnSeq || c.ReturnSeq < 0 {
				continue
			}
			if secFloor(c.ReturnT) <= earliestLapse {
				// surely inside the period
				o.Hist.Probes["request-surely-inside-period"]++
				if hfp == 300 && c.InvokeT-c0.ReturnT >= 298_000 {
					o.Hist.Probes["default-period-299s"]++
				}
				inside = append(inside, v)
				if v.XStatus == "hit" || (v.Kind == "origin" && len(v.OwnUps) == 0) {
					out = append(out, violation("C07", "answered-from-cache-in-period", "request inside the hit-for-pass period answered without contacting the upstream",
						"client op %d %s (t=%d..%dms, label %q) lies inside the period opened by fetch #%d (ended t=%dms, period %ds) but has no upstream request of its own", c.Op, c.Key, c.InvokeT, c.ReturnT, v.XStatus, u0.Serial, endT(u0), hfp))
				} else if len(v.OwnUps) != 1 && (v.Kind == "origin" || v.Kind == "error") {
					out = append(out, violation("C07", "not-forwarded-once-in-period", "request inside the hit-for-pass period not forwarded exactly once",
						"client op %d %s inside the period of fetch #%d made %d upstream requests", c.Op, c.Key, u0.Serial, len(v.OwnUps)))
				}
				if c.BlockedSeq != 0 {
					out = append(out, violation("C07", "queued-in-period", "request inside the hit-for-pass period was parked behind another request",
						"client op %d %s was seen blocked inside pike at seq %d although the key is in hit-for-pass since fetch #%d", c.Op, c.Key, c.BlockedSeq, u0.Serial))
				}
			} else if secFloor(c.InvokeT) > latestLapse {
				o.Hist.Probes["request-after-period"]++
				if hfp == 300 {
					o.Hist.Probes["default-period-302s"]++
				}
				// no later marker source before c?
				later := false
				for _, u1 := range o.Hist.Ups {
					if u1.Key == c.Key && u1.ArriveSeq > u0.ArriveSeq && u1.ArriveSeq < c.ReturnSeq && u1.Task != c.Task {
						// another request reached the origin before c returned: unless it was itself
						// passing under the marker (label hitForPass) it may have opened a new period
						if u1.Req < 0 || byReq[o.Hist.Reqs[u1.Req]] == nil || byReq[o.Hist.Reqs[u1.Req]].XStatus != "hitForPass" {
							later = true
						}
					}
				}
				for _, r1 := range o.Hist.Reqs {
					// ... or took the fetching role and ended it without reaching the origin (client
					// gone, no healthy upstream): that leaves a fresh marker as well
					if r1 != c && r1.Key == c.Key && len(r1.Ups) == 0 && r1.InvokeSeq > c0.ReturnSeq && r1.InvokeSeq < c.ReturnSeq && endedFetchWithoutOrigin(r1) {
						later = true
					}
				}
				if !later && v.XStatus == "hitForPass" {
					out = append(out, violation("C07", "marker-outlives-period", "hit-for-pass still in force after the configured period",
						"client op %d %s invoked at t=%dms is labelled hitForPass although the period opened by fetch #%d (client returned t=%dms, period %ds) lapsed at the latest in second %d", c.Op, c.Key, c.InvokeT, u0.Serial, c0.ReturnT, hfp, latestLapse))
				}
				if !later && v.Kind == "origin" && len(v.OwnUps) == 1 && v.OwnUps[0].Shareable {
					o.Hist.Probes["probe-after-period-cacheable"]++
				}
			}
		}
		// non-queueing under withheld replies: a request inside the period that was
		// started before another one's reply was delivered must have reached the origin
		// before that delivery
		if withheld && len(inside) > 1 {
			o.Hist.Probes["burst-inside-period-withheld"]++
			for _, a := range inside {
				for _, b := range inside {
					if a == b || len(a.OwnUps) != 1 || len(b.OwnUps) != 1 {
						continue
					}
					ua, ub := a.OwnUps[0], b.OwnUps[0]
					if ua.Answered && b.R.InvokeSeq < ua.ReplySeq && ub.ArriveSeq > ua.ReplySeq {
						out = append(out, violation("C07", "pass-waits-for-other-reply", "request inside the hit-for-pass period reached the origin only after another request's reply",
							"client op %d %s (invoked seq %d) arrived at the origin at seq %d, after reply #%d to op %d was delivered at seq %d, although replies were withheld until nothing else could move",
							b.R.Op, b.R.Key, b.R.InvokeSeq, ub.ArriveSeq, ua.Serial, a.R.Op, ua.ReplySeq))
					}
				}
			}
		}
	}
	_ = fmt.Sprint
	return out
}

func endT(u *UpRec) int64 { return u.EndT }
