package engine

import (
	"bytes"
	"fmt"
	"sort"
	"strings"
)

// ---------------------------------------------------------------------------------
// C20 - concurrent requests, purges and reloads never corrupt shared state

func init() {
	register(&Profile{
		Name:     "C20",
		Property: "C20",
		Gen:      func(g *Gen) *Plan { return swarm(g, genC20(g), 0.25, 0.3) },
		Oracles: []func(o *Outcome) []Violation{respOracle("C20"), servedOracleStrict("C20"), oracleImmutable, livenessOracle("C20"),
			// purges racing requests and reloads still do their job (shared key / registry state intact)
			relabelOnly("C20", oracleC18, "served-purged-entry")},
		NonTrivial: func(o *Outcome) bool {
			return o.Hist.Probes["hits-checked"] > 0 && (o.Hist.Probes["reloads"] > 0 || o.Hist.Probes["purges"] > 0)
		},
		Rule:         "seeded mixed traffic on hot and cold keys with lifetimes of 1-2s: GET / HEAD / POST with varying Accept-Encoding and conditional headers, named purges and repeated reloads of behaviourally equivalent configurations (toggling added response headers of an unused location, compress levels, an extra cache), bursts of 3-8 concurrent requests, the cache persisted in a quarter of the plans; the same schedules are executed (a) by the normal build with the response-integrity, served-or-explained and immutability oracles armed and (b) by a -race build in which the scheduler's own synchronisation is hidden from the detector (RaceDisable around harness hand-offs, one-directional controller->task edges), so that two accesses by different tasks which pike itself does not order are reported although execution is serialised; a race report counts only if the innermost non-runtime frames of both accesses lie outside the harness. in a quarter of the plans a tenth of the clients disconnect at a scheduler-chosen step (fault client-disconnect); persisted plans may also meet a store that fails, forgets or dawdles. non-trivial = at least one cache hit was checked and a reload or purge ran; distinct = distinct history hash",
		ExpectProbes: []string{"hits-checked", "reloads", "purges", "same-entry-served-twice", "path:waiter", "request-during-reload"},
	})
}

func genC20(g *Gen) *Plan {
	p := &Plan{Profile: "C20", Seed: g.Seed, Policy: g.policy(), ClockMenuMs: []int{200, 500, 1000}, ClockWeight: pick(g, 0.0, 0.05, 0.1), MaxSteps: 5000}
	// a quarter of the plans persist the cache: purges then race requests that can bring the
	// entry back from the store
	store := ""
	if g.p(0.25) {
		store = storeURL
	}
	mk := func(variant int) Config {
		c := Config{
			Compresses: []CompressCfg{{Name: "cp", Levels: map[string]uint{"gzip": uint(1 + variant%3*3), "br": uint(1 + variant%2*4)}}},
			Caches:     []CacheCfg{{Name: "c1", Size: pick(g, 1000, 1000, 16), HitForPass: "1s", Store: store}},
			Upstreams:  []UpstreamCfg{{Name: "u1", Policy: "first", Servers: []UpstreamSrv{{Addr: "http://" + originA}}}},
			// (the rewrite maps every path to itself: the rewriter runs for every forwarded request)
			Locations: []LocationCfg{{Name: "l1", Upstream: "u1", RespHeaders: []string{"X-Loc:l1"}, Rewrites: []string{"/m*:/m$1"}, QueryStrings: nil}, {Name: "lx", Upstream: "u1", Prefixes: []string{"/unused"}}},
			Servers:   []ServerCfg{{Addr: srvAddr, Locations: []string{"l1", "lx"}, Cache: "c1", Compress: "cp", CompressMinLength: "100"}},
		}
		if variant%2 == 1 {
			c.Locations[1].RespHeaders = []string{"X-Unused:1"}
			c.Caches = append(c.Caches, CacheCfg{Name: "cextra", Size: 100, HitForPass: "1s"})
		}
		return c
	}
	size := mk(0).Caches[0].Size
	nconf := g.n(1, 4)
	for i := 0; i < nconf; i++ {
		c := mk(i)
		c.Caches[0].Size = size
		p.Configs = append(p.Configs, c)
	}
	p.Scripts = map[string][]Reply{}
	var keys []string
	nkeys := g.n(2, 5)
	for i := 0; i < nkeys; i++ {
		method := pick(g, "GET", "GET", "GET", "HEAD", "POST")
		uri := fmt.Sprintf("/m%d", i)
		keys = append(keys, method+" "+uri)
		var s []Reply
		etag := fmt.Sprintf(`"m%d"`, i)
		for j := 0; j < 10; j++ {
			r := Reply{Status: 200, Size: pick(g, 0, 50, 400, 400, 2500), Class: pick(g, "text", "text", "rep"), Enc: pick(g, "", "", "gzip", "br"), ETag: etag, CType: pick(g, "text/plain", "application/json")}
			if g.p(0.8) {
				r.Header = [][2]string{{"Cache-Control", fmt.Sprintf("max-age=%d", g.n(1, 2))}}
			} else {
				r.Header = [][2]string{{"Cache-Control", "no-cache"}}
			}
			if g.p(0.3) {
				r.Header = append(r.Header, [2]string{"X-Multi", "a"}, [2]string{"X-Multi", "b"})
			}
			s = append(s, r)
		}
		p.Scripts[method+" "+hostA+" "+uri] = s
	}
	p.Default = cacheable(1, 40)
	n := g.n(15, 40)
	conf := 0
	for i := 0; i < n; i++ {
		switch x := g.n(0, 19); {
		case x < 15:
			k := keys[0]
			if g.p(0.5) {
				k = keys[g.R.IntN(len(keys))]
			}
			var m, u string
			fmt.Sscanf(k, "%s %s", &m, &u)
			op := reqOp(m, hostA, u)
			if ae := pick(g, "", "gzip", "br", "gzip, br", "deflate"); ae != "" {
				op.Header = append(op.Header, [2]string{"Accept-Encoding", ae})
			}
			if m != "POST" && g.p(0.2) {
				op.Header = append(op.Header, [2]string{"If-None-Match", pick(g, fmt.Sprintf(`"m%s"`, u[2:]), `"zzz"`)})
			}
			if m == "POST" {
				op.Body = "p"
			}
			op.Barrier = g.p(0.15)
			p.Ops = append(p.Ops, op)
		case x < 17:
			k := keys[g.R.IntN(len(keys))]
			var m, u string
			fmt.Sscanf(k, "%s %s", &m, &u)
			p.Ops = append(p.Ops, Op{Kind: OpPurge, Cache: "c1", Key: m + " " + hostA + " " + u})
		case x < 19:
			if len(p.Configs) > 1 {
				conf = (conf + 1) % len(p.Configs)
				p.Ops = append(p.Ops, Op{Kind: OpReload, Config: conf})
			}
		default:
			p.Ops = append(p.Ops, sleepOp(pick(g, 200, 1000, 2100), g.p(0.4)))
		}
	}
	return p
}

// oracleImmutable: serving an entry never alters it - two responses carrying the same
// origin reply to requests with the same Accept-Encoding and validators are identical
// (Age and the cache label aside), whatever was served in between.
func oracleImmutable(o *Outcome) []Violation {
	var out []Violation
	for _, m := range o.Hist.Misc {
		switch m.Kind {
		case "reload":
			o.Hist.Probes["reloads"]++
			for _, r := range o.Hist.Reqs {
				if r.InvokeSeq < m.ReturnSeq && (r.ReturnSeq < 0 || r.ReturnSeq > m.InvokeSeq) {
					o.Hist.Probes["request-during-reload"]++
					break
				}
			}
		case "purge":
			o.Hist.Probes["purges"]++
		}
	}
	type key struct {
		serial int
		ae     string
		cond   string
		method string
	}
	first := map[key]*View{}
	views := o.Views()
	for _, v := range views {
		if v.Kind != "origin" || v.R.Res == nil {
			continue
		}
		k := key{v.Serial, reqHeaderGet(v.R.ReqHeader, "Accept-Encoding"), reqHeaderGet(v.R.ReqHeader, "If-None-Match"), v.R.Method}
		f := first[k]
		if f == nil {
			first[k] = v
			continue
		}
		// compression level may legitimately change with a reload in between (the body is
		// then compared decoded by the response oracle): compare encoded bytes only when
		// both are hits of the stored variants, otherwise decoded bodies
		o.Hist.Probes["same-entry-served-twice"]++
		a, b := f.R.Res, v.R.Res
		if a.Status != b.Status {
			out = append(out, violation("C20", "entry-changed-status", "the same entry answered the same request with a different status", "ops %d and %d (reply #%d): %d vs %d", f.R.Op, v.R.Op, v.Serial, a.Status, b.Status))
			continue
		}
		da, ea := decodeBody(a.Header.Get("Content-Encoding"), a.Body)
		db, eb := decodeBody(b.Header.Get("Content-Encoding"), b.Body)
		if ea == nil && eb == nil && !bytes.Equal(da, db) {
			out = append(out, violation("C20", "entry-changed-body", "the same entry answered the same request with a different body", "ops %d and %d (reply #%d): %d vs %d decoded bytes", f.R.Op, v.R.Op, v.Serial, len(da), len(db)))
		}
		ha, hb := stableHeaders(a.Header), stableHeaders(b.Header)
		if ha != hb {
			out = append(out, violation("C20", "entry-changed-headers", "the same entry answered the same request with different headers", "ops %d and %d (reply #%d):\n   first: %s\n   later: %s", f.R.Op, v.R.Op, v.Serial, ha, hb))
		}
	}
	return out
}

func stableHeaders(h map[string][]string) string {
	var ks []string
	for k := range h {
		switch k {
		case "Age", "X-Status", "Content-Length", "Content-Encoding":
			continue
		}
		ks = append(ks, k)
	}
	sort.Strings(ks)
	var b strings.Builder
	for _, k := range ks {
		fmt.Fprintf(&b, "%s=%s; ", k, strings.Join(h[k], ","))
	}
	return b.String()
}
