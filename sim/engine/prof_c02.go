package engine

import (
	"fmt"
	"strings"
)

// ---------------------------------------------------------------------------------
// C02 - every coalesced request completes

func init() {
	register(&Profile{
		Name:     "C02",
		Property: "C02",
		Gen:      genC02,
		Oracles:  []func(o *Outcome) []Violation{livenessOracle("C02"), servedOracle("C02"), respOracle("C02", "wrong-body", "wrong-status", "wrong-key", "unattributable-response")},
		NonTrivial: func(o *Outcome) bool {
			return o.Hist.Probes["request-blocked-behind-fetch"] > 0
		},
		Rule:         "seeded plans: bursts of 2-9 concurrent GET/HEAD on a hot key over 1-4 epochs; every fetch outcome drawn from {cacheable, uncacheable, undecodable body, transport error, never answers (+proxy timeout), mid-body abort -> panic}; store on/off (failing, forgetting or slow in half of the plans that have one); purges mixed in; in 15% of the store-less plans an update renames the server's cache while fetches are in flight; a final probe per key after the hit-for-pass period. non-trivial = a request was observed parked behind a fetch; distinct = distinct history hash",
		ExpectProbes: []string{"waiter-released-after:err", "waiter-released-after:hang", "waiter-released-after:abort", "waiter-released-after:badenc", "waiter-released-after:uncacheable", "waiter-released-after:cacheable", "sender-blocked-on-unready-waiter"},
	})
}

func faultyReply(g *Gen, timeoutOK bool) Reply {
	r := cacheable(g.n(1, 4), g.n(10, 400))
	switch g.n(0, 3) {
	case 0:
		r.Fault = "err"
	case 1:
		if timeoutOK {
			r.Fault = "hang"
		} else {
			r.Fault = "err"
		}
	case 2:
		r.Fault = "abort"
		r.Size = g.n(100, 3000)
	case 3:
		r.Fault = "badenc"
		r.Enc = pick(g, "lz4", "zst", "snz", "gzip", "br")
		if r.Enc == "gzip" || r.Enc == "br" {
			// kept undecoded by pike: the corruption only surfaces when the entry is
			// compressed for storage or transcoded for another client
			r.Size = g.n(1100, 3000)
		}
	}
	return r
}

func genC02(g *Gen) *Plan {
	hfp := g.n(1, 3)
	p := &Plan{Profile: "C02", Seed: g.Seed, Policy: g.policy(), ClockMenuMs: g.clockMenu(), ClockWeight: pick(g, 0.0, 0.05, 0.15), MaxSteps: 1500}
	store := ""
	if g.p(0.4) {
		store = storeURL
	}
	cfg := baseConfig(1000, hfpString(hfp), store)
	timeout := g.n(1, 3)
	cfg.Locations[0].ProxyTimeout = fmt.Sprintf("%ds", timeout)
	p.Configs = []Config{cfg}
	renames := store == "" && g.p(0.15)
	if renames {
		// an update renames the server's cache while fetches are in flight (dispatchers are
		// reset before servers): whoever waits behind a fetch of the old cache is still released
		c2 := baseConfig(1000, hfpString(hfp), "")
		c2.Locations[0].ProxyTimeout = cfg.Locations[0].ProxyTimeout
		c2.Caches[0].Name = "c1b"
		c2.Servers[0].Cache = "c1b"
		p.Configs = append(p.Configs, c2)
	}
	keys := []string{"/k0"}
	if g.p(0.5) {
		keys = append(keys, "/k1")
	}
	epochs := g.n(1, 4)
	p.Scripts = map[string][]Reply{}
	for _, k := range keys {
		for _, m := range []string{"GET", "HEAD"} {
			var s []Reply
			for i := 0; i < epochs+2; i++ {
				switch x := g.n(0, 9); {
				case x < 3:
					s = append(s, cacheable(g.n(1, 4), g.n(10, 400)))
				case x < 5:
					s = append(s, uncacheable(g, g.n(10, 400)))
				default:
					s = append(s, faultyReply(g, true))
				}
			}
			// whatever happened before, the origin finally behaves
			s = append(s, cacheable(3, 64))
			p.Scripts[m+" "+hostA+" "+k] = s
		}
	}
	p.Default = cacheable(2, 50)
	for ep := 0; ep < epochs; ep++ {
		n := g.n(2, 9)
		method := pick(g, "GET", "GET", "GET", "HEAD")
		for i := 0; i < n; i++ {
			k := keys[0]
			if len(keys) > 1 && g.p(0.2) {
				k = keys[1]
			}
			op := reqOp(method, hostA, k)
			if i == 0 && g.p(0.3) {
				op.Barrier = true
			}
			op.Cancellable = g.p(0.12) // its client may disconnect while it is parked or in flight
			p.Ops = append(p.Ops, op)
			if renames && i > 0 && g.p(0.25) {
				p.Ops = append(p.Ops, Op{Kind: OpReload, Config: (ep + i) % 2})
			}
			if g.p(0.08) {
				p.Ops = append(p.Ops, Op{Kind: OpPurge, Cache: pick(g, "c1", "c1", ""), Key: method + " " + hostA + " " + k})
			}
		}
		p.Ops = append(p.Ops, sleepOp(pick(g, 500, 1000, 2000, (hfp+1)*1000, (hfp+timeout+1)*1000), g.p(0.5)))
	}
	// final probes: the key must not be wedged
	p.Ops = append(p.Ops, sleepOp((hfp+5)*1000, true))
	for _, k := range keys {
		op := reqOp("GET", hostA, k)
		op.Barrier = true
		op.Tag = "probe"
		p.Ops = append(p.Ops, op)
	}
	if store != "" {
		p.InlineStore = g.p(0.3)
		if g.p(0.5) {
			// the store misbehaves (errors on read, write and delete, lost writes, slow calls):
			// nothing of that may keep a request from completing
			p.StoreFaults = storeFaults(g, 80, pick(g, 0.15, 0.4), "err", "notfound", "delay", "drop")
		}
	}
	return p
}

// livenessOracle: nothing blocks forever (scheduler stuck detector) and the run's
// drain completes. A step-budget overrun is inconclusive and only counted.
func livenessOracle(prop string) func(o *Outcome) []Violation {
	return func(o *Outcome) []Violation {
		var out []Violation
		if len(o.Hist.Stuck) > 0 {
			kind := "stuck"
			sig := "a task never completes although no fault is pending"
			out = append(out, violation(prop, kind, sig, "after advancing the simulated clock by more than an hour these tasks are still blocked: %s", strings.Join(o.Hist.Stuck, " || ")))
		}
		return out
	}
}

func faultOf(u *UpRec) string {
	if u.Reply.Fault != "" {
		return u.Reply.Fault
	}
	if u.Shareable {
		return "cacheable"
	}
	return "uncacheable"
}

// servedOracle: every completed request was either answered with an origin reply
// or failed for a reason the plan injected; released waiters either carry the
// fetched response or contacted the upstream themselves.
func servedOracle(prop string) func(o *Outcome) []Violation {
	return func(o *Outcome) []Violation {
		var out []Violation
		for _, v := range o.Views() {
			r := v.R
			own := v.OwnUps
			if r.ReleasedBy >= 0 {
				if f := o.reqOfTask(r.ReleasedBy); f != nil && len(f.Ups) > 0 {
					o.Hist.Probes["waiter-released-after:"+faultOf(o.Hist.Ups[f.Ups[len(f.Ups)-1]])]++
				}
			}
			switch v.Kind {
			case "pending":
				// covered by the liveness oracle (stuck) unless the step budget ran out
			case "aborted":
				ok := false
				for _, u := range own {
					if u.Reply.Fault == "abort" {
						ok = true
					}
				}
				if !ok {
					out = append(out, violation(prop, "unexpected-panic", "handler panicked without an injected mid-body abort",
						"client op %d %s: panic %q", r.Op, r.Key, r.Res.PanicVal))
				}
			case "error":
				explained := false
				for _, u := range own {
					if u.Reply.Fault != "" || u.TimedOut {
						explained = true
					}
				}
				if o.Plan.explainsErrors() {
					explained = true
				}
				// a corrupt gzip / br body is kept as it came (pike does not decode those on
				// receipt): whoever needs it transcoded later inherits the origin's fault
				for _, u := range o.Hist.Ups {
					if u.Key == r.Key && u.Reply.Fault == "badenc" && (u.Reply.Enc == "gzip" || u.Reply.Enc == "br") && u.ArriveSeq < r.ReturnSeq {
						explained = true
					}
				}
				if !explained {
					out = append(out, violation(prop, "unexplained-error", "client error without an injected fault",
						"client op %d %s: status %d body %q, own upstream requests: %d, released by task %d", r.Op, r.Key, r.Res.Status, trunc(string(r.Res.Body), 120), len(own), r.ReleasedBy))
				}
			case "refused":
				if !o.Plan.explainsErrors() {
					out = append(out, violation(prop, "refused", "no listener although the server is configured", "client op %d %s @%s", r.Op, r.Key, r.Addr))
				}
			case "origin":
				if r.ReleasedBy >= 0 && len(own) == 0 {
					// a waiter that did not go upstream must carry the response of the fetch it waited for
					f := o.reqOfTask(r.ReleasedBy)
					if f != nil && f.Key == r.Key && len(f.Ups) > 0 {
						fu := o.Hist.Ups[f.Ups[len(f.Ups)-1]]
						if v.Serial != fu.Serial {
							out = append(out, violation(prop, "waiter-foreign-response", "released waiter carries a response that is neither the fetched one nor its own",
								"client op %d %s released by the fetcher of #%d carries reply #%d without contacting the upstream", r.Op, r.Key, fu.Serial, v.Serial))
						}
					}
				}
			}
		}
		return out
	}
}

// explainsErrors: profiles that take servers / upstreams away on purpose.
func (p *Plan) explainsErrors() bool {
	for _, op := range p.Ops {
		switch op.Kind {
		case OpHealth, OpReload, OpCrash, OpStop:
			return true
		}
	}
	return false
}

func trunc(s string, n int) string {
	if len(s) > n {
		return s[:n] + "..."
	}
	return s
}
