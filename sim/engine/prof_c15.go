package engine

import (
	"fmt"
	"net/http"
	"net/url"
	"sort"
	"strings"
)

// ---------------------------------------------------------------------------------
// C15 - transparent proxying, conditionals, ranges

const originB = "10.0.0.2:7002"

func init() {
	register(&Profile{
		Name:     "C15",
		Property: "C15",
		Gen:      func(g *Gen) *Plan { return swarm(g, genC15(g), 0.2, 0) },
		Oracles:  []func(o *Outcome) []Violation{oracleC15, respOracle("C15"), servedOracle("C15"), livenessOracle("C15")},
		NonTrivial: func(o *Outcome) bool {
			return o.Hist.Probes["upstream-request-compared"] > 0 && (o.Hist.Probes["conditional-on-fetching-role"]+o.Hist.Probes["range-request"] > 0)
		},
		Rule:         "seeded plans: a server with an /api location (drawn subset of: rewrite rules of the documented one- and two-wildcard forms, alone or chained, added request headers, added query parameters, added response headers, proxy timeout) on upstream u1 (optional Accept-Encoding override) and a catch-all location on upstream u2; clients with arbitrary extra headers, bodies on non-GET methods, queries, If-None-Match / If-Modified-Since (matching and not) and Range, reaching the cache in cold, waiter, hit and hit-for-pass roles (the role is produced by the scheduler). Oracle: the request the origin logged equals the client's request transformed by the reference model; conditionals are withheld exactly on the fetching role; the client gets 304 iff its validators match; a 304 / 206 reply is never replayed to another client. in a fifth of the plans a tenth of the clients disconnect at a scheduler-chosen step (fault client-disconnect). non-trivial = an upstream request was compared and a conditional or range request occurred; distinct = distinct history hash",
		ExpectProbes: []string{"upstream-request-compared", "conditional-on-fetching-role", "conditional-on-hit", "conditional-on-pass", "range-request", "rewrite-applied", "rewrite-rules-chained", "non-2xx-with-validators-on-hit", "query-added", "header-added", "accept-encoding-overridden", "304-for-client", "body-forwarded"},
	})
}

func genC15(g *Gen) *Plan {
	p := &Plan{Profile: "C15", Seed: g.Seed, Policy: g.policy(), ClockMenuMs: []int{300, 1000}, ClockWeight: pick(g, 0.0, 0.03), MaxSteps: 3000}
	la := LocationCfg{Name: "la", Upstream: "u1", Prefixes: []string{"/api"}}
	switch g.n(0, 9) {
	case 0, 1, 2, 3:
		la.Rewrites = []string{"/api/*:/$1"}
	case 4:
		// several rules: each one works on the result of the one before (as in nginx)
		la.Rewrites = []string{"/api/*:/$1", "/v1/*:/v2/$1"}
	case 5:
		la.Rewrites = []string{"/api/v1/*:/api/$1", "/api/*:/$1"}
	case 6:
		la.Rewrites = []string{"/api/rest/*/user/*:/$1/$2", "/api/*:/$1"}
	}
	if g.p(0.5) {
		la.ReqHeaders = []string{"X-Added-Req:one"}
		if g.p(0.5) {
			la.ReqHeaders = append(la.ReqHeaders, "X-Client:fromloc")
		}
	}
	if g.p(0.5) {
		la.QueryStrings = []string{"added:1"}
		if g.p(0.4) {
			la.QueryStrings = append(la.QueryStrings, "k:v w")
		}
	}
	if g.p(0.5) {
		la.RespHeaders = []string{"X-Added-Resp:yes"}
	}
	lb := LocationCfg{Name: "lb", Upstream: "u2"}
	if g.p(0.3) {
		lb.RespHeaders = []string{"X-Catch:all"}
	}
	u1 := UpstreamCfg{Name: "u1", Policy: "first", Servers: []UpstreamSrv{{Addr: "http://" + originA}}, AcceptEncoding: pick(g, "", "", "gzip", "br, gzip")}
	u2 := UpstreamCfg{Name: "u2", Policy: "first", Servers: []UpstreamSrv{{Addr: "http://" + originB}}}
	p.Configs = []Config{{
		Caches:    []CacheCfg{{Name: "c1", Size: 1000, HitForPass: "2s"}},
		Upstreams: []UpstreamCfg{u1, u2},
		Locations: []LocationCfg{la, lb},
		Servers:   []ServerCfg{{Addr: srvAddr, Locations: []string{"la", "lb"}, Cache: "c1"}},
	}}
	p.Scripts = map[string][]Reply{}
	p.Default = Reply{Status: 200, Size: 30, Header: [][2]string{{"Cache-Control", "no-cache"}}}
	type res struct {
		method, uri string
	}
	var pool []res
	for i := 0; i < g.n(2, 5); i++ {
		base := pick(g, "/api/", "/api/v1/", "/api/v1/", "/api/rest/u7/user/", "/web/", "/")
		uri := fmt.Sprintf("%sitem%d", base, i)
		if g.p(0.5) {
			uri += pick(g, "?b=2&a=1", "?q=x%20y", "?a=1", "?a=2", "?a=3&b=2", "?z")
		}
		method := pick(g, "GET", "GET", "GET", "HEAD", "POST", "PUT", "DELETE")
		pool = append(pool, res{method, uri})
		key := method + " " + hostA + " " + uri
		etag := fmt.Sprintf(`"e%d"`, i)
		lm := "Mon, 02 Jan 2006 15:04:05 GMT"
		var s []Reply
		for j := 0; j < 10; j++ {
			// now and then the resource is answered with a (cacheable) non-2xx status that still
			// carries validators: conditionals never apply to such an answer
			r := Reply{Status: pick(g, 200, 200, 200, 200, 200, 200, 200, 404, 410, 301), Size: g.n(40, 400), Class: "text", ETag: etag, LastMod: lm}
			if g.p(0.2) {
				r.LastMod = ""
			}
			switch x := g.n(0, 9); {
			case x < 7:
				r.Header = [][2]string{{"Cache-Control", fmt.Sprintf("max-age=%d", g.n(2, 6))}}
			case x < 9:
				r.Header = [][2]string{{"Cache-Control", "no-cache"}}
			}
			s = append(s, r)
		}
		p.Scripts[key] = s
		if method == "GET" && g.p(0.3) {
			// the same URL is also asked for with HEAD (an entry of its own, whichever comes first)
			pool = append(pool, res{"HEAD", uri})
			p.Scripts["HEAD "+hostA+" "+uri] = s
		}
	}
	n := g.n(10, 28)
	reloadAt := -1
	if g.p(0.3) {
		// a second configuration with other configured changes takes over half way (applied
		// while nothing else runs): requests after it are compared against it
		c2 := p.Configs[0]
		c2.Upstreams = append([]UpstreamCfg(nil), c2.Upstreams...)
		c2.Locations = append([]LocationCfg(nil), c2.Locations...)
		c2.Upstreams[0].AcceptEncoding = pick(g, "", "gzip", "br")
		l := c2.Locations[0]
		l.ReqHeaders = pick(g, nil, []string{"X-Added-Req:two"})
		l.RespHeaders = pick(g, nil, []string{"X-Added-Resp:v2"})
		l.QueryStrings = pick(g, nil, []string{"added:2"})
		if len(l.Rewrites) > 0 && g.p(0.5) {
			// same patterns, other targets
			rw := append([]string(nil), l.Rewrites...)
			last := strings.SplitN(rw[len(rw)-1], ":", 2)
			rw[len(rw)-1] = last[0] + ":/moved" + last[1]
			l.Rewrites = rw
		}
		c2.Locations[0] = l
		p.Configs = append(p.Configs, c2)
		reloadAt = n / 2
	}
	for i := 0; i < n; i++ {
		if i == reloadAt {
			p.Ops = append(p.Ops, Op{Kind: OpReload, Config: 1, Barrier: true, Quiesce: true}, Op{Kind: "noop", Barrier: true})
		}
		rs := pool[g.R.IntN(len(pool))]
		op := reqOp(rs.method, hostA, rs.uri)
		key := op.CacheKey()
		sc := p.Scripts[key][0]
		if g.p(0.4) {
			op.Header = append(op.Header, [2]string{"X-Client", fmt.Sprintf("c%d", g.n(0, 99))})
		}
		if g.p(0.3) {
			op.Header = append(op.Header, [2]string{"Accept-Encoding", pick(g, "gzip", "br", "gzip, br", "deflate")})
		}
		if g.p(0.2) {
			op.Header = append(op.Header, [2]string{"Cookie", "a=b"}, [2]string{"Authorization", "Bearer zzz"})
		}
		if rs.method == "GET" || rs.method == "HEAD" {
			switch x := g.n(0, 9); {
			case x < 2:
				op.Header = append(op.Header, [2]string{"If-None-Match", sc.ETag})
			case x < 3:
				op.Header = append(op.Header, [2]string{"If-None-Match", `"other"`})
			case x < 4:
				op.Header = append(op.Header, [2]string{"If-Modified-Since", "Mon, 02 Jan 2006 15:04:05 GMT"})
			case x < 5 && rs.method == "GET":
				op.Header = append(op.Header, [2]string{"Range", pick(g, "bytes=0-9", "bytes=5-20")})
			}
		} else if rs.method != "DELETE" {
			op.Body = fmt.Sprintf("{\"n\":%d}", g.n(0, 999))
			op.Header = append(op.Header, [2]string{"Content-Type", "application/json"})
		}
		op.Barrier = g.p(0.25)
		p.Ops = append(p.Ops, op)
		if g.p(0.12) {
			p.Ops = append(p.Ops, sleepOp(pick(g, 300, 1000, 2500), g.p(0.5)))
		}
	}
	return p
}

// refRewrite: the documented rewrite forms (`/api/*:/$1`, `/rest/*/user/*:/$1/$2`) read as
// prefix rules - a rule applies when the path starts with its text before the first `*`;
// `*` stands for the rest of the path (or, with two of them, for what lies before and after
// the last occurrence of the text between them). Rules apply in order, each to the result of
// the previous one.
func refRewrite(rules []string, path string) string {
	for _, rule := range rules {
		ft := strings.SplitN(rule, ":", 2)
		if len(ft) != 2 {
			continue
		}
		segs := strings.Split(ft[0], "*")
		var caps []string
		switch len(segs) {
		case 2:
			if !strings.HasPrefix(path, segs[0]) || segs[1] != "" {
				continue
			}
			caps = []string{strings.TrimPrefix(path, segs[0])}
		case 3:
			if !strings.HasPrefix(path, segs[0]) || segs[2] != "" {
				continue
			}
			rest := strings.TrimPrefix(path, segs[0])
			i := strings.LastIndex(rest, segs[1])
			if i < 0 {
				continue
			}
			caps = []string{rest[:i], rest[i+len(segs[1]):]}
		default:
			continue
		}
		out := ft[1]
		for i, c := range caps {
			out = strings.ReplaceAll(out, fmt.Sprintf("$%d", i+1), c)
		}
		path = out
	}
	return path
}

func kvPairs(list []string) [][2]string {
	var out [][2]string
	for _, s := range list {
		kv := strings.Split(s, ":")
		if len(kv) == 2 {
			out = append(out, [2]string{kv[0], kv[1]})
		}
	}
	return out
}

func queryMultiset(raw string) []string {
	vals, _ := url.ParseQuery(raw)
	var out []string
	for k, vs := range vals {
		for _, v := range vs {
			out = append(out, k+"="+v)
		}
	}
	sort.Strings(out)
	return out
}

func oracleC15(o *Outcome) []Violation {
	var out []Violation
	cfg := &o.Plan.Configs[0]
	views := o.Views()
	reloadOp := -1
	for i, op := range o.Plan.Ops {
		if op.Kind == OpReload {
			reloadOp = i
		}
	}
	locFor := func(uri string) *LocationCfg {
		// reference routing for this profile's two locations: prefix location first
		for i := range cfg.Locations {
			l := &cfg.Locations[i]
			for _, pre := range l.Prefixes {
				if strings.HasPrefix(uri, pre) {
					return l
				}
			}
		}
		for i := range cfg.Locations {
			if len(cfg.Locations[i].Prefixes) == 0 {
				return &cfg.Locations[i]
			}
		}
		return nil
	}
	upstreamOf := func(name string) *UpstreamCfg {
		for i := range cfg.Upstreams {
			if cfg.Upstreams[i].Name == name {
				return &cfg.Upstreams[i]
			}
		}
		return nil
	}
	for _, v := range views {
		r := v.R
		cfg = &o.Plan.Configs[0]
		if reloadOp >= 0 && r.Op > reloadOp {
			cfg = &o.Plan.Configs[1]
			o.Hist.Probes["request-after-reconfiguration"]++
		}
		loc := locFor(r.URI)
		if loc == nil {
			continue
		}
		ups := upstreamOf(loc.Upstream)
		label := v.XStatus
		inm, ims, rng := reqHeaderGet(r.ReqHeader, "If-None-Match"), reqHeaderGet(r.ReqHeader, "If-Modified-Since"), reqHeaderGet(r.ReqHeader, "Range")
		if rng != "" {
			o.Hist.Probes["range-request"]++
		}
		for _, u := range v.OwnUps {
			o.Hist.Probes["upstream-request-compared"]++
			call := u.Call
			bad := func(kind, sig, format string, a ...interface{}) {
				out = append(out, violation("C15", kind, sig, "client op %d %s %s (label %q) -> upstream request #%d: %s", r.Op, r.Method, r.URI, label, u.Serial, fmt.Sprintf(format, a...)))
			}
			if want := strings.TrimPrefix(ups.Servers[0].Addr, "http://"); call.Target != want {
				bad("wrong-upstream", "request forwarded to another upstream than its location names", "target %s, location %s -> %s", call.Target, loc.Name, want)
			}
			if call.Method != r.Method {
				bad("method-changed", "method changed on the way to the origin", "origin saw %s", call.Method)
			}
			// path
			cu, _ := url.ParseRequestURI(r.URI)
			wantPath := cu.EscapedPath()
			if rw := refRewrite(loc.Rewrites, wantPath); rw != wantPath {
				wantPath = rw
				o.Hist.Probes["rewrite-applied"]++
				if len(loc.Rewrites) > 1 {
					o.Hist.Probes["rewrite-rules-chained"]++
				}
			}
			if call.Path != wantPath {
				bad("wrong-path", "path differs from the configured rewrite of the client's path", "origin saw path %q, expected %q", call.Path, wantPath)
			}
			// query
			addedQ := kvPairs(loc.QueryStrings)
			if len(addedQ) == 0 {
				if call.RawQuery != cu.RawQuery {
					bad("query-changed", "query string changed although no query parameter is configured", "origin saw %q, client sent %q", call.RawQuery, cu.RawQuery)
				}
			} else {
				o.Hist.Probes["query-added"]++
				want := queryMultiset(cu.RawQuery)
				for _, kv := range addedQ {
					want = append(want, kv[0]+"="+kv[1])
				}
				sort.Strings(want)
				got := queryMultiset(call.RawQuery)
				if strings.Join(want, "&") != strings.Join(got, "&") {
					bad("wrong-query", "query parameters differ from client's plus configured ones", "origin saw %v, expected %v", got, want)
				}
			}
			// body
			if string(call.Body) != o.Plan.Ops[r.Op].Body {
				bad("body-changed", "request body changed on the way to the origin", "origin saw %q, client sent %q", trunc(string(call.Body), 60), trunc(o.Plan.Ops[r.Op].Body, 60))
			}
			if len(call.Body) > 0 {
				o.Hist.Probes["body-forwarded"]++
			}
			// headers
			want := http.Header{}
			for _, kv := range r.ReqHeader {
				want.Add(kv[0], kv[1])
			}
			fetching := label == "fetching"
			if inm != "" || ims != "" {
				switch {
				case fetching:
					o.Hist.Probes["conditional-on-fetching-role"]++
				case label == "hitForPass" || label == "passed":
					o.Hist.Probes["conditional-on-pass"]++
				}
			}
			if fetching {
				want.Del("If-None-Match")
				want.Del("If-Modified-Since")
				if call.Header.Get("If-None-Match") != "" || call.Header.Get("If-Modified-Since") != "" {
					bad("conditional-leaked", "conditional header of the fetching request reached the origin", "origin saw If-None-Match=%q If-Modified-Since=%q", call.Header.Get("If-None-Match"), call.Header.Get("If-Modified-Since"))
				}
			}
			for _, kv := range kvPairs(loc.ReqHeaders) {
				want.Add(kv[0], kv[1])
				o.Hist.Probes["header-added"]++
			}
			if ups.AcceptEncoding != "" {
				want.Set("Accept-Encoding", ups.AcceptEncoding)
				o.Hist.Probes["accept-encoding-overridden"]++
			}
			keys := map[string]bool{}
			for k := range want {
				keys[k] = true
			}
			for k := range call.Header {
				keys[k] = true
			}
			var ks []string
			for k := range keys {
				ks = append(ks, k)
			}
			sort.Strings(ks)
			for _, k := range ks {
				if k == "X-Forwarded-For" || k == "User-Agent" || k == "Content-Length" || notCarried[k] {
					continue
				}
				if strings.Join(want[k], "|") != strings.Join(call.Header[k], "|") {
					if label == "" && !fetching && (k == "If-None-Match" || k == "If-Modified-Since") {
						continue // error responses carry no label: role unknown
					}
					bad("wrong-request-headers", "request headers differ from client's plus configured ones", "header %s: origin saw %q, expected %q", k, call.Header[k], want[k])
				}
			}
		}
		if v.Kind == "origin" && len(v.OwnUps) == 0 && (inm != "" || ims != "") && v.Up.Call.status/100 != 2 {
			o.Hist.Probes["non-2xx-with-validators-on-hit"]++
		}
		// the client's own validators
		if v.Kind == "origin" && (r.Method == "GET" || r.Method == "HEAD") && v.Up.Call.status == 200 {
			et := v.Up.Call.header.Get("ETag")
			if len(v.OwnUps) == 0 && (inm != "" || ims != "") {
				o.Hist.Probes["conditional-on-hit"]++
			}
			// (a HEAD answer has no body to spare: elton's fresh check leaves it alone,
			// and the statement is about full responses)
			if r.Method == "GET" && inm != "" && et != "" && inm == et && len(v.Up.BodyRaw) > 0 {
				if r.Res.Status != 304 {
					out = append(out, violation("C15", "conditional-not-honoured", "client whose validator matches did not get 304",
						"client op %d %s sent If-None-Match %s equal to the ETag of reply #%d but got status %d (label %q)", r.Op, r.URI, inm, v.Up.Serial, r.Res.Status, label))
				} else {
					o.Hist.Probes["304-for-client"]++
				}
			}
		}
		// 304 / 206 replies are private to the request that provoked them
		if v.Kind == "origin" && v.Up.Req >= 0 && o.Hist.Reqs[v.Up.Req] != r && (v.Up.Call.status == 304 || v.Up.Call.status == 206) {
			f := o.Hist.Reqs[v.Up.Req]
			out = append(out, violation("C15", "partial-or-304-replayed", "304 / 206 answer provoked by one client replayed to another",
				"client op %d %s received origin reply #%d (status %d, provoked by op %d with headers [%s]) without contacting the upstream", r.Op, r.URI, v.Up.Serial, v.Up.Call.status, f.Op, hdrString(f.ReqHeader)))
		}
		// configured response headers are present
		if v.Kind == "origin" && len(v.OwnUps) > 0 {
			for _, kv := range kvPairs(loc.RespHeaders) {
				if !contains(r.Res.Header[http.CanonicalHeaderKey(kv[0])], kv[1]) {
					out = append(out, violation("C15", "response-header-missing", "configured response header missing",
						"client op %d %s: location %s adds %s:%s but the response has [%s]", r.Op, r.URI, loc.Name, kv[0], kv[1], hdrString(headerPairs(r.Res.Header))))
				}
			}
		}
	}
	return out
}
