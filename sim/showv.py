import json,sys
r=json.load(open('/tmp/vs_ov/out.json'))
kind=sys.argv[1]; n=int(sys.argv[2]) if len(sys.argv)>2 else 0
vs=[v for v in r['violations'] if v['violation']['kind']==kind]
vs.sort(key=lambda v: len(v['trace']))
v=vs[n]
print(v['violation']); print('run',v['run'],'seed',v['run_seed'], 'policy', v['plan']['policy'], 'clockw', v['plan'].get('clock_weight'))
key=None
for l in v['trace']:
    if len(sys.argv)>3 and sys.argv[3] not in l and 'clock' not in l and 'sleep' not in l: continue
    print(l[:300])
