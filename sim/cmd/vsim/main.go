// vsim: driver of the deterministic simulation checks.
//
//	vsim check <property> [--tier quick|thorough] [--seed N] [--budget seconds] [--runs N] [--workers N]
//	vsim replay <file>
//	vsim determinism [--profile P] [--runs N]
//
// Exit codes: 0 property held on everything explored (known findings are printed as
// KNOWN-FINDING lines), 1 a violation that replays (VIOLATION property=<id> replay=<path>),
// 2 build / instrumentation / watchdog / non-reproducing trouble.
package main

import (
	"bytes"
	"encoding/json"
	"flag"
	"fmt"
	"math"
	"os"
	"os/exec"
	"path/filepath"
	"runtime"
	"sort"
	"strconv"
	"strings"
	"sync"
	"time"

	"verif/sim/instrument"
)

const goBin = "go1.26.8"

// repoDir is the tree under test. It is /repo (the registered checks never use anything
// else); VSIM_REPO lets a background sweep work on a snapshot of it - the `replace` of the
// harness module must then point at the same directory.
var repoDir = func() string {
	if d := os.Getenv("VSIM_REPO"); d != "" {
		return d
	}
	return "/repo"
}()

// verifRoot is the directory the checks run in (cwd = /verif per MANIFEST contract, or a
// snapshot of it); everything the driver reads or writes is relative to it.
var verifRoot, simDir = func() (string, string) {
	wd, err := os.Getwd()
	if err != nil {
		wd = "/verif"
	}
	for d := wd; d != "/" && d != "."; d = filepath.Dir(d) {
		if _, err := os.Stat(filepath.Join(d, "sim", "go.mod")); err == nil {
			return d, filepath.Join(d, "sim")
		}
	}
	return "/verif", "/verif/sim"
}()

type replay struct {
	Plan     json.RawMessage `json:"plan"`
	Schedule []string        `json:"schedule"`
}

type spec struct {
	Profile   string     `json:"profile"`
	Tier      string     `json:"tier"`
	Seed      uint64     `json:"seed"`
	From      int        `json:"from"`
	Count     int        `json:"count"`
	Out       string     `json:"out"`
	Replay    *replay    `json:"replay,omitempty"`
	Replays   []replay   `json:"replays,omitempty"`
	Repeat    int        `json:"repeat,omitempty"`
	PlanOnly  bool       `json:"plan_only,omitempty"`
	MaxWallS  float64    `json:"max_wall_s,omitempty"`
	KeepTrace bool       `json:"keep_trace,omitempty"`
	Known     []knownSig `json:"known,omitempty"`
}

type knownSig struct {
	Property  string `json:"property"`
	Kind      string `json:"kind"`
	Signature string `json:"signature"`
}

type violation struct {
	Property string `json:"property"`
	Kind     string `json:"kind"`
	Sig      string `json:"signature"`
	Detail   string `json:"detail"`
}

type runViolation struct {
	Run       int             `json:"run"`
	ChunkFrom int             `json:"chunk_from"`
	RunSeed   uint64          `json:"run_seed"`
	Violation violation       `json:"violation"`
	Plan      json.RawMessage `json:"plan"`
	Schedule  []string        `json:"schedule"`
	Hash      string          `json:"hash"`
	Trace     []string        `json:"trace"`
	Known     bool            `json:"known"`
	Race      bool            `json:"race"`
	Crash     bool            `json:"crash"`
}

type sample struct {
	RunSeed  uint64          `json:"run_seed"`
	Plan     json.RawMessage `json:"plan"`
	Schedule []string        `json:"schedule"`
	Trace    []string        `json:"trace"`
}

type batchResult struct {
	Kinds    []string `json:"kinds"`
	Hash     string   `json:"hash"`
	Schedule []string `json:"schedule"`
	Steps    int      `json:"steps"`
}

type result struct {
	Profile    string            `json:"profile"`
	Runs       int               `json:"runs"`
	Steps      int               `json:"steps"`
	SimMs      int64             `json:"sim_ms"`
	WallS      float64           `json:"wall_s"`
	NonTrivial []string          `json:"nontrivial_hashes"`
	AllHashes  int               `json:"all_hashes"`
	States     []uint64          `json:"state_hashes"`
	Faults     map[string]int    `json:"faults"`
	Probes     map[string]int    `json:"probes"`
	Stuck      int               `json:"stuck"`
	Budget     int               `json:"budget_hit"`
	Violations []runViolation    `json:"violations"`
	Samples    []sample          `json:"samples"`
	Hashes     map[string]string `json:"hashes"`
	Batch      []batchResult     `json:"batch"`
	Error      string            `json:"error"`
	KnownHits  map[string]int    `json:"known_hits"`
	Rule       string            `json:"rule"`
	Expect     []string          `json:"expect_probes"`
	Meta       map[string]string `json:"meta"`
}

type knownFinding struct {
	Property  string `json:"property"`
	Kind      string `json:"kind"`
	Signature string `json:"signature"`
	Status    string `json:"status"` // known | fixed
	Commit    string `json:"commit,omitempty"`
	What      string `json:"what"`
}

type build struct {
	scratch string
	worker  string
	race    bool
	sites   int
	warns   []string
}

func fatal2(format string, a ...interface{}) {
	fmt.Fprintf(os.Stderr, "vsim: "+format+"\n", a...)
	os.Exit(2)
}

func goEnv() []string {
	env := os.Environ()
	env = append(env, "GOFLAGS=-mod=mod", "GOPROXY=off", "GOSUMDB=off", "GOTOOLCHAIN=local")
	return env
}

// prepare instruments /repo's working tree into a scratch dir and builds the worker.
func prepare(race bool) *build {
	scratch, err := os.MkdirTemp("", "vsim-")
	if err != nil {
		fatal2("mktemp: %v", err)
	}
	b := &build{scratch: scratch, race: race}
	res, err := instrument.Run(instrument.Options{Repo: repoDir, Pkgs: []string{"cache", "server", "location", "upstream", "compress", "store"}, GoPkgs: []string{"server", "cache", "compress", "location", "store"}, Out: filepath.Join(scratch, "ov")})
	if err != nil {
		os.RemoveAll(scratch)
		fatal2("instrumentation failed: %v", err)
	}
	b.sites = len(res.Sites)
	b.warns = res.Warnings
	// go.sum of the harness module follows the repository's
	if data, err := os.ReadFile(filepath.Join(repoDir, "go.sum")); err == nil {
		_ = os.WriteFile(filepath.Join(simDir, "go.sum"), data, 0o644)
	}
	b.worker = filepath.Join(scratch, "worker.test")
	args := []string{"test", "-c", "-tags", "verif", "-overlay", res.Overlay, "-o", b.worker}
	if gf := os.Getenv("VSIM_GCFLAGS"); gf != "" {
		// debugging aid (e.g. all=-d=checkptr)
		args = append(args, "-gcflags", gf)
	}
	if race {
		args = append(args, "-race")
	}
	args = append(args, "./worker")
	cmd := exec.Command(goBin, args...)
	cmd.Dir = simDir
	cmd.Env = goEnv()
	out, err := cmd.CombinedOutput()
	if err != nil {
		os.RemoveAll(scratch)
		fatal2("building the instrumented worker failed (exit 2, not a violation):\n%s", out)
	}
	return b
}

func (b *build) cleanup() { os.RemoveAll(b.scratch) }

var specCounter int
var specMu sync.Mutex

func (b *build) runWorker(s *spec, timeout time.Duration, extraEnv ...string) (*result, error) {
	specMu.Lock()
	specCounter++
	id := specCounter
	specMu.Unlock()
	sp := filepath.Join(b.scratch, fmt.Sprintf("spec-%d.json", id))
	s.Out = filepath.Join(b.scratch, fmt.Sprintf("out-%d.json", id))
	raw, _ := json.Marshal(s)
	if err := os.WriteFile(sp, raw, 0o644); err != nil {
		return nil, err
	}
	defer os.Remove(sp)
	defer os.Remove(s.Out)
	var cmd *exec.Cmd
	if b.race {
		cmd = exec.Command(b.worker, "-test.run", "^TestWorker$", "-test.timeout", "0", "-test.cpu", "4")
	} else {
		// address-space guard: a runaway allocation of the code under test kills this worker
		// (and is then isolated as a process crash) instead of the machine
		cmd = exec.Command("/bin/sh", "-c", "ulimit -d 6000000; exec \"$0\" \"$@\"", b.worker, "-test.run", "^TestWorker$", "-test.timeout", "0", "-test.cpu", "4")
	}
	cmd.Env = append(os.Environ(), "VSIM_SPEC="+sp)
	if b.race {
		logp := filepath.Join(b.scratch, fmt.Sprintf("race-%d", id))
		cmd.Env = append(cmd.Env, "GORACE=log_path="+logp+" halt_on_error=0", "VSIM_RACE_LOG="+logp)
		defer func() {
			if ms, _ := filepath.Glob(logp + ".*"); ms != nil {
				for _, m := range ms {
					os.Remove(m)
				}
			}
		}()
	}
	cmd.Env = append(cmd.Env, extraEnv...)
	var buf bytes.Buffer
	cmd.Stdout = &buf
	cmd.Stderr = &buf
	if err := cmd.Start(); err != nil {
		return nil, err
	}
	done := make(chan error, 1)
	go func() { done <- cmd.Wait() }()
	var werr error
	select {
	case werr = <-done:
	case <-time.After(timeout):
		_ = cmd.Process.Kill()
		<-done
		return nil, fmt.Errorf("worker watchdog: no result after %v\n%s", timeout, tail(buf.String(), 2000))
	}
	data, err := os.ReadFile(s.Out)
	if err != nil {
		return nil, &workerDied{err: fmt.Sprintf("%v", werr), output: headTail(dropNoise(buf.String()), 40000, 20000)}
	}
	var r result
	if err := json.Unmarshal(data, &r); err != nil {
		return nil, err
	}
	if r.Error != "" {
		return nil, fmt.Errorf("worker error: %s", r.Error)
	}
	r.Meta = map[string]string{"output": tail(buf.String(), 20000)}
	return &r, nil
}

// dropNoise removes pike's own log lines and the runtime's span dumps from a dead worker's
// output so that the fatal message and the stacks survive the clipping.
func dropNoise(out string) string {
	var b strings.Builder
	for _, l := range strings.Split(out, "\n") {
		if strings.HasPrefix(l, `{"level":`) {
			continue
		}
		if strings.HasPrefix(l, "0x") && (strings.HasSuffix(l, " unmarked") || strings.HasSuffix(l, " marked") || strings.Contains(l, " alloc ") || strings.Contains(l, " free ")) {
			continue
		}
		b.WriteString(l)
		b.WriteByte('\n')
	}
	return b.String()
}

// workerDied: the worker process ended without writing its result (fatal error of the Go
// runtime, out of memory, killed): the code under test took the process down.
type workerDied struct {
	err    string
	output string
}

func (w *workerDied) Error() string {
	return "worker produced no result (" + w.err + "): " + w.output
}

func (w *workerDied) reason() string {
	for _, l := range strings.Split(w.output, "\n") {
		if strings.HasPrefix(l, "fatal error:") || strings.HasPrefix(l, "panic:") || strings.HasPrefix(l, "runtime: out of memory") {
			return strings.TrimSpace(l)
		}
	}
	return "worker process " + w.err
}

func headTail(s string, h, t int) string {
	if len(s) <= h+t {
		return s
	}
	return s[:h] + "\n...\n" + s[len(s)-t:]
}

func tail(s string, n int) string {
	if len(s) > n {
		return s[len(s)-n:]
	}
	return s
}

// ---------------------------------------------------------------------------------

type checkCfg struct {
	prop    string
	profile string
	tier    string
	seed    uint64
	budget  float64
	maxRuns int
	workers int
	chunk   int
	level   string
}

var levels = map[string]string{
	"C08": "fault_enumeration", "C09": "fault_enumeration", "C10": "fault_enumeration", "C19": "fault_enumeration",
}

func main() {
	if len(os.Args) < 2 {
		fatal2("usage: vsim check|replay|determinism ...")
	}
	switch os.Args[1] {
	case "check":
		os.Exit(cmdCheck(os.Args[2:]))
	case "replay":
		os.Exit(cmdReplay(os.Args[2:]))
	case "determinism":
		os.Exit(cmdDeterminism(os.Args[2:]))
	case "warm":
		// build both worker flavours once so that later checks hit the build cache
		b := prepare(false)
		b.cleanup()
		b = prepare(true)
		b.cleanup()
		fmt.Println("vsim: build cache warm")
	default:
		fatal2("unknown command %q", os.Args[1])
	}
}

func envSeed() uint64 {
	if v := os.Getenv("VERIF_SEED"); v != "" {
		if n, err := strconv.ParseUint(v, 10, 64); err == nil {
			return n
		}
		if n, err := strconv.ParseInt(v, 10, 64); err == nil {
			return uint64(n)
		}
	}
	return 1
}

func cmdCheck(args []string) int {
	fs := flag.NewFlagSet("check", flag.ExitOnError)
	tier := fs.String("tier", "", "quick|thorough")
	seed := fs.Uint64("seed", envSeed(), "base seed (default VERIF_SEED or 1)")
	budget := fs.Float64("budget", 0, "wall seconds of simulation (0 = tier default)")
	maxRuns := fs.Int("runs", 0, "cap on runs (0 = none)")
	workers := fs.Int("workers", 0, "worker processes (0 = NumCPU)")
	profile := fs.String("profile", "", "profile (default = property id)")
	if len(args) < 1 {
		fatal2("usage: vsim check <property> [flags]")
	}
	prop := args[0]
	_ = fs.Parse(args[1:])
	if *tier == "" {
		*tier = os.Getenv("VERIF_TIER")
	}
	if *tier != "thorough" {
		*tier = "quick"
	}
	c := &checkCfg{prop: prop, profile: *profile, tier: *tier, seed: *seed, budget: *budget, maxRuns: *maxRuns, workers: *workers}
	if c.profile == "" {
		c.profile = prop
	}
	if c.workers <= 0 {
		c.workers = runtime.NumCPU()
	}
	if c.budget <= 0 {
		if c.tier == "quick" {
			c.budget = 40
		} else {
			c.budget = 900
		}
	}
	c.chunk = 200
	c.level = levels[prop]
	if c.level == "" {
		c.level = "exploration"
	}
	return runCheck(c)
}

type agg struct {
	runs, steps      int
	simMs            int64
	nonTrivial       map[string]struct{}
	states           map[uint64]struct{}
	faults, probes   map[string]int
	stuck, budgetHit int
	violations       []runViolation
	samples          []sample
	workerWall       float64
	workersFailed    []string
	raceReports      int
	rule             string
	expect           []string
	knownHits        map[string]int
	raceRuns         int
	crashes          int
	transientDeaths  []string
}

func newAgg() *agg {
	return &agg{nonTrivial: map[string]struct{}{}, states: map[uint64]struct{}{}, faults: map[string]int{}, probes: map[string]int{}, knownHits: map[string]int{}}
}

func (a *agg) add(r *result) {
	a.rule = r.Rule
	a.expect = r.Expect
	a.runs += r.Runs
	a.steps += r.Steps
	a.simMs += r.SimMs
	a.workerWall += r.WallS
	for _, h := range r.NonTrivial {
		a.nonTrivial[h] = struct{}{}
	}
	for _, s := range r.States {
		a.states[s] = struct{}{}
	}
	for k, v := range r.Faults {
		a.faults[k] += v
	}
	for k, v := range r.Probes {
		a.probes[k] += v
	}
	for k, v := range r.KnownHits {
		a.knownHits[k] += v
	}
	a.stuck += r.Stuck
	a.budgetHit += r.Budget
	a.violations = append(a.violations, r.Violations...)
	if len(a.samples) < 3 {
		a.samples = append(a.samples, r.Samples...)
	}
}

func runCheck(c *checkCfg) int {
	start := time.Now()
	b := prepare(false)
	defer b.cleanup()
	buildS := time.Since(start).Seconds()
	a := newAgg()
	known := loadKnown()
	var knownSigs []knownSig
	for _, k := range known {
		if k.Status == "known" {
			knownSigs = append(knownSigs, knownSig{k.Property, k.Kind, k.Signature})
		}
	}
	explore := func(b *build, budget float64, maxRuns int) {
		deadline := time.Now().Add(time.Duration(budget * float64(time.Second)))
		var mu sync.Mutex
		next := 0
		stop := false
		var wg sync.WaitGroup
		for w := 0; w < c.workers; w++ {
			wg.Add(1)
			go func() {
				defer wg.Done()
				for {
					mu.Lock()
					if stop || time.Now().After(deadline) || (maxRuns > 0 && next >= maxRuns) {
						mu.Unlock()
						return
					}
					from := next
					cnt := c.chunk
					if b.race {
						cnt = c.chunk / 4
					}
					if maxRuns > 0 && from+cnt > maxRuns {
						cnt = maxRuns - from
					}
					next += cnt
					mu.Unlock()
					remain := time.Until(deadline).Seconds()
					if remain < 0.2 {
						return
					}
					r, err := b.runWorker(&spec{Profile: c.profile, Tier: c.tier, Seed: c.seed, From: from, Count: cnt, MaxWallS: remain, Known: knownSigs}, time.Duration(remain+180)*time.Second)
					if wd, ok := err.(*workerDied); ok {
						if rv := isolateCrash(b, c, from, cnt, wd); rv != nil {
							mu.Lock()
							a.violations = append(a.violations, *rv)
							a.crashes++
							stop = true
							mu.Unlock()
							continue
						}
						// no run of the chunk ends a fresh process on its own: execute the chunk again
						// (twice at most). A death that does not come back is not attributable to any
						// run - it is counted, reported in the evidence and on stderr, and the chunk's
						// second execution is what enters the result, so that no run is skipped.
						for try := 0; try < 2 && err != nil; try++ {
							remain := math.Max(time.Until(deadline).Seconds(), 60)
							r, err = b.runWorker(&spec{Profile: c.profile, Tier: c.tier, Seed: c.seed, From: from, Count: cnt, MaxWallS: remain, Known: knownSigs}, time.Duration(remain+180)*time.Second)
						}
						if err == nil {
							mu.Lock()
							a.transientDeaths = append(a.transientDeaths, fmt.Sprintf("runs %d..%d: %s", from, from+cnt-1, wd.reason()))
							mu.Unlock()
							fmt.Fprintf(os.Stderr, "vsim: note: a worker process died (%s) while executing runs %d..%d; no single run reproduces it and the chunk completed when executed again\n", wd.reason(), from, from+cnt-1)
							saveTrouble(c, "transient", wd.Error())
						}
					}
					mu.Lock()
					if err != nil {
						a.workersFailed = append(a.workersFailed, err.Error())
						stop = true
					} else {
						if b.race {
							a.raceRuns += r.Runs
							for i := range r.Violations {
								r.Violations[i].Race = true
							}
						}
						a.add(r)
						for _, v := range r.Violations {
							if !v.Known {
								stop = true
							}
						}
					}
					mu.Unlock()
				}
			}()
		}
		wg.Wait()
	}
	var braceBuild *build
	if c.prop == "C20" {
		explore(b, c.budget*0.5, c.maxRuns)
		if len(a.workersFailed) == 0 {
			t0 := time.Now()
			braceBuild = prepare(true)
			defer braceBuild.cleanup()
			buildS += time.Since(t0).Seconds()
			explore(braceBuild, c.budget*0.5, c.maxRuns)
		}
	} else {
		explore(b, c.budget, c.maxRuns)
	}
	if len(a.workersFailed) > 0 {
		// keep the whole story for a post-mortem
		path := saveTrouble(c, "trouble", strings.Join(a.workersFailed, "\n\n=====\n\n"))
		fmt.Fprintf(os.Stderr, "vsim: worker trouble (exit 2, not a violation; full output in %s): %s\n", path, tail(a.workersFailed[0], 3000))
		return 2
	}
	if a.runs == 0 && len(a.violations) == 0 {
		fatal2("no runs were executed")
	}
	if a.runs == 0 {
		a.runs = 1 // the crashing run itself
	}
	// violations: group, minimise, verify replay, compare with known findings
	exit := 0
	printedKnown := map[string]bool{}
	nviol := 0
	seen := map[string]bool{}
	sort.SliceStable(a.violations, func(i, j int) bool { return len(a.violations[i].Schedule) < len(a.violations[j].Schedule) })
	for _, v := range a.violations {
		key := v.Violation.Property + "/" + v.Violation.Kind
		if seen[key] {
			continue
		}
		seen[key] = true
		if v.Violation.Property != c.prop {
			// a side observation of another property's oracle: logged, not reported here
			fmt.Printf("NOTE: side observation %s (%s) in run seed %d - reported by that property's own check\n", key, v.Violation.Sig, v.RunSeed)
			continue
		}
		fb := b
		if v.Race && braceBuild != nil {
			fb = braceBuild
		}
		path, ok, msg := finalizeViolation(fb, c, &v)
		if !ok {
			fmt.Fprintf(os.Stderr, "vsim: violation %s did not reproduce on replay (%s): treated as harness trouble\n", key, msg)
			if exit == 0 {
				exit = 2
			}
			continue
		}
		if kf := matchKnown(known, &v.Violation); kf != nil && kf.Status == "known" {
			fmt.Printf("KNOWN-FINDING: property=%s %s [%s] observed %d times in this batch, replay=%s\n", c.prop, kf.What, v.Violation.Sig, a.knownHits[key], path)
			printedKnown[kf.Kind+"/"+kf.Signature] = true
			continue
		}
		nviol++
		fmt.Printf("VIOLATION property=%s replay=%s\n", c.prop, path)
		fmt.Printf("  kind=%s signature=%q\n  %s\n", v.Violation.Kind, v.Violation.Sig, v.Violation.Detail)
		exit = 1
	}
	for _, k := range known {
		if k.Property == c.prop && k.Status == "known" && !printedKnown[k.Kind+"/"+k.Signature] {
			fmt.Printf("KNOWN-FINDING: property=%s %s [%s] (not observed in this batch)\n", c.prop, k.What, k.Signature)
		}
	}
	writeEvidence(c, b, a, nviol, time.Since(start).Seconds(), buildS)
	fmt.Printf("%s %s: %d runs, %d steps, %.0f simulated s, %d distinct non-trivial histories, %d abstract states, stuck=%d budget-hit=%d, wall %.1fs (build %.1fs), violations=%d\n",
		c.prop, c.tier, a.runs, a.steps, float64(a.simMs)/1000, len(a.nonTrivial), len(a.states), a.stuck, a.budgetHit, time.Since(start).Seconds(), buildS, nviol)
	if exit == 0 && c.prop == "C20" && a.raceRuns == 0 && c.maxRuns == 0 {
		fmt.Fprintf(os.Stderr, "vsim: inconclusive (exit 2): the race-detector build executed no run\n")
		return 2
	}
	if exit == 0 && a.runs >= 1000 && len(a.nonTrivial) == 0 {
		// nothing was decided: not one run reached the situation the property is about (on the
		// unchanged tree every profile reaches it in almost every run). That is neither "held"
		// nor a violation of the statement: say so instead of passing silently.
		fmt.Fprintf(os.Stderr, "vsim: inconclusive (exit 2): none of the %d runs was non-trivial for %s (%s)\n", a.runs, c.prop, nonTrivialRule(a.rule))
		return 2
	}
	return exit
}

func nonTrivialRule(rule string) string {
	if i := strings.Index(rule, "non-trivial = "); i >= 0 {
		r := rule[i:]
		if j := strings.Index(r, ";"); j > 0 {
			r = r[:j]
		}
		return r
	}
	return "see the rule in the evidence file"
}

// isolateCrash re-runs the runs of a chunk whose worker died one per process until the
// run that takes the process down is found; that run becomes a violation (kind process-crash).
func saveTrouble(c *checkCfg, what, text string) string {
	dir := filepath.Join(verifRoot, "replays", "_worker_trouble")
	_ = os.MkdirAll(dir, 0o755)
	path := filepath.Join(dir, fmt.Sprintf("%s-%s-%s-%d.log", c.prop, c.tier, what, time.Now().UnixNano()))
	_ = os.WriteFile(path, []byte(text), 0o644)
	return path
}

func isolateCrash(b *build, c *checkCfg, from, cnt int, wd *workerDied) *runViolation {
	for i := 0; i < cnt; i++ {
		idx := from + i
		_, err := b.runWorker(&spec{Profile: c.profile, Tier: c.tier, Seed: c.seed, From: idx, Count: 1}, 300*time.Second)
		d, ok := err.(*workerDied)
		if !ok {
			continue
		}
		// second opinion in another fresh process
		_, err2 := b.runWorker(&spec{Profile: c.profile, Tier: c.tier, Seed: c.seed, From: idx, Count: 1}, 300*time.Second)
		if _, again := err2.(*workerDied); !again {
			continue
		}
		pr, err3 := b.runWorker(&spec{Profile: c.profile, Tier: c.tier, Seed: c.seed, From: idx, Count: 1, PlanOnly: true}, 60*time.Second)
		var plan json.RawMessage
		var seed uint64
		if err3 == nil && len(pr.Samples) > 0 {
			plan, seed = pr.Samples[0].Plan, pr.Samples[0].RunSeed
		}
		return &runViolation{Run: idx, ChunkFrom: idx, RunSeed: seed, Plan: plan, Crash: true,
			Violation: violation{Property: c.prop, Kind: "process-crash", Sig: "the simulated request path took the whole process down: " + d.reason(),
				Detail: "run " + strconv.Itoa(idx) + " ends the worker process in two fresh processes:\n" + tail(d.output, 2500)}}
	}
	_ = wd
	return nil
}

func loadKnown() []knownFinding {
	var k struct {
		Findings []knownFinding `json:"findings"`
	}
	data, err := os.ReadFile(filepath.Join(verifRoot, "known_findings.json"))
	if err != nil {
		return nil
	}
	_ = json.Unmarshal(data, &k)
	return k.Findings
}

func matchKnown(known []knownFinding, v *violation) *knownFinding {
	for i := range known {
		k := &known[i]
		if k.Property == v.Property && k.Kind == v.Kind && k.Signature == v.Sig {
			return k
		}
	}
	return nil
}

// finalizeViolation minimises, writes the replay file and re-runs it in a fresh
// process; ok only if the same violation kind and the same history hash come back.
func finalizeViolation(b *build, c *checkCfg, v *runViolation) (string, bool, string) {
	want := v.Violation.Property + "/" + v.Violation.Kind
	if v.Crash {
		dir := filepath.Join(verifRoot, "replays", c.prop)
		_ = os.MkdirAll(dir, 0o755)
		path := filepath.Join(dir, fmt.Sprintf("%s-%d.json", v.Violation.Kind, v.RunSeed))
		file := map[string]interface{}{"property": c.prop, "profile": c.profile, "violation": v.Violation, "seed": v.RunSeed, "base_seed": c.seed,
			"run_index": v.Run, "plan": v.Plan, "schedule": nil, "replay_mode": "crash",
			"chunk":           map[string]interface{}{"base_seed": c.seed, "from": v.Run, "count": 1, "tier": c.tier},
			"reproducibility": "the run ended the worker process in 2 of 2 fresh processes (no history can be recorded: the process dies)"}
		data, _ := json.MarshalIndent(file, "", " ")
		if err := os.WriteFile(path, data, 0o644); err != nil {
			return "", false, err.Error()
		}
		return path, true, ""
	}
	plan, sched := v.Plan, v.Schedule
	if !v.Known {
		// (a recorded finding is replayed as observed: no time is spent minimising it again)
		plan, sched = minimise(b, c, v, want)
	}
	// authoritative replay of the minimised case, twice, fresh processes
	r1, err := b.runWorker(&spec{Profile: c.profile, Tier: c.tier, Replay: &replay{Plan: plan, Schedule: sched}, KeepTrace: true}, 120*time.Second)
	if err != nil {
		return "", false, err.Error()
	}
	r2, err := b.runWorker(&spec{Profile: c.profile, Tier: c.tier, Replay: &replay{Plan: plan, Schedule: sched}}, 120*time.Second, "GOMAXPROCS=1")
	if err != nil {
		return "", false, err.Error()
	}
	var got *runViolation
	for i := range r1.Violations {
		if r1.Violations[i].Violation.Property+"/"+r1.Violations[i].Violation.Kind == want {
			got = &r1.Violations[i]
		}
	}
	h1, h2 := r1.Hashes["-1"], r2.Hashes["-1"]
	mode, repro := "single-run", "2 of 2 fresh-process replays, identical history hash"
	var chunk map[string]interface{}
	if got == nil || h1 == "" || h1 != h2 {
		// The simulator decides every interleaving, clock movement and fault, but the code under
		// test can carry nondeterminism of its own (sync.Pool reuse across requests, map / sync.Map
		// iteration order, state left by earlier runs of the same process). Such a violation was
		// still observed on the real code: try harder to reproduce it before giving up.
		got = nil
		plan, sched = v.Plan, v.Schedule
		ok, n := 0, 0
		for n < 6 && ok < 2 {
			n++
			r, err := b.runWorker(&spec{Profile: c.profile, Tier: c.tier, Replay: &replay{Plan: plan, Schedule: sched}, KeepTrace: true}, 120*time.Second)
			if err != nil {
				continue
			}
			for i := range r.Violations {
				if r.Violations[i].Violation.Property+"/"+r.Violations[i].Violation.Kind == want {
					if got == nil {
						got = &r.Violations[i]
						h1 = r.Hashes["-1"]
					}
					ok++
					break
				}
			}
		}
		if got != nil {
			repro = fmt.Sprintf("%d of %d fresh-process replays of the recorded run (the behaviour depends on state outside the simulator's seams, e.g. sync.Pool reuse or map iteration order)", ok, n)
		} else {
			// replay the worker's chunk up to the failing run: same process history as the original observation
			cnt := v.Run - v.ChunkFrom + 1
			for try := 0; try < 2 && got == nil; try++ {
				r, err := b.runWorker(&spec{Profile: c.profile, Tier: c.tier, Seed: c.seed, From: v.ChunkFrom, Count: cnt}, 600*time.Second)
				if err != nil {
					continue
				}
				for i := range r.Violations {
					rv := &r.Violations[i]
					if rv.Run == v.Run && rv.Violation.Property+"/"+rv.Violation.Kind == want {
						got = rv
						h1 = rv.Hash
						plan, sched = rv.Plan, rv.Schedule
					}
				}
			}
			if got == nil {
				// last resort: the recorded run repeated many times in one fresh process (every
				// repetition builds new maps / pools: new per-map hash seeds)
				r, err := b.runWorker(&spec{Profile: c.profile, Tier: c.tier, Replay: &replay{Plan: v.Plan, Schedule: v.Schedule}, Repeat: 600, KeepTrace: false}, 900*time.Second)
				if err == nil {
					for i := range r.Violations {
						if r.Violations[i].Violation.Property+"/"+r.Violations[i].Violation.Kind == want {
							got = &r.Violations[i]
							h1 = got.Hash
							plan, sched = v.Plan, v.Schedule
							mode = "repeat"
							repro = fmt.Sprintf("reproduced after %d repetitions of the recorded run in one fresh process (the behaviour depends on per-process / per-map random state of the Go runtime, e.g. map hash seeds or sync.Pool placement)", r.Probes["replay-repetitions"])
						}
					}
				}
				if got == nil {
					return "", false, "the violation was observed once but the recorded run (6 fresh processes), its chunk prefix (2 fresh processes) and 600 repetitions in one process did not reproduce it"
				}
			}
			if mode != "repeat" {
				mode = "chunk-prefix"
				repro = "reproduced by re-running the worker's chunk of runs up to the failing one in a fresh process (the behaviour depends on state left by earlier requests of the same process, e.g. sync.Pool contents)"
				chunk = map[string]interface{}{"base_seed": c.seed, "from": v.ChunkFrom, "count": cnt, "tier": c.tier}
			}
		}
	}
	dir := filepath.Join(verifRoot, "replays", c.prop)
	_ = os.MkdirAll(dir, 0o755)
	path := filepath.Join(dir, fmt.Sprintf("%s-%d.json", v.Violation.Kind, v.RunSeed))
	file := map[string]interface{}{
		"property":        c.prop,
		"profile":         c.profile,
		"violation":       got.Violation,
		"seed":            v.RunSeed,
		"base_seed":       c.seed,
		"run_index":       v.Run,
		"plan":            plan,
		"schedule":        got.Schedule,
		"hash":            h1,
		"original":        map[string]interface{}{"ops": countOps(v.Plan), "steps": len(v.Schedule)},
		"minimised":       map[string]interface{}{"ops": countOps(plan), "steps": len(got.Schedule)},
		"trace":           got.Trace,
		"replay_mode":     mode,
		"reproducibility": repro,
	}
	if chunk != nil {
		file["chunk"] = chunk
	}
	data, _ := json.MarshalIndent(file, "", " ")
	if err := os.WriteFile(path, data, 0o644); err != nil {
		return "", false, err.Error()
	}
	v.Violation = got.Violation
	return path, true, ""
}

func countOps(plan json.RawMessage) int {
	var p struct {
		Ops []json.RawMessage `json:"ops"`
	}
	_ = json.Unmarshal(plan, &p)
	n := 0
	for _, o := range p.Ops {
		if !bytes.Contains(o, []byte(`"kind":"noop"`)) {
			n++
		}
	}
	return n
}

// minimise: delta debugging over plan operations, then over the schedule.
func minimise(b *build, c *checkCfg, v *runViolation, want string) (json.RawMessage, []string) {
	deadline := time.Now().Add(75 * time.Second)
	plan := v.Plan
	sched := v.Schedule
	try := func(cands []replay) []batchResult {
		r, err := b.runWorker(&spec{Profile: c.profile, Tier: c.tier, Replays: cands}, 120*time.Second)
		if err != nil {
			return nil
		}
		return r.Batch
	}
	has := func(br batchResult) bool {
		for _, k := range br.Kinds {
			if k == want {
				return true
			}
		}
		return false
	}
	// confirm the original replays at all
	if br := try([]replay{{Plan: plan, Schedule: sched}}); len(br) != 1 || !has(br[0]) {
		return plan, sched
	}
	// 1. drop operations (chunks halving down to single ops)
	var pm map[string]json.RawMessage
	_ = json.Unmarshal(plan, &pm)
	var ops []json.RawMessage
	_ = json.Unmarshal(pm["ops"], &ops)
	mk := func(ops []json.RawMessage) json.RawMessage {
		cp := map[string]json.RawMessage{}
		for k, v := range pm {
			cp[k] = v
		}
		o, _ := json.Marshal(ops)
		cp["ops"] = o
		out, _ := json.Marshal(cp)
		return out
	}
	// dropping ops invalidates recorded names (start:i, cN): replay is by name with
	// skipping, and the default policy drains, so only the violation class is kept.
	// To keep names meaningful we blank ops instead of removing them.
	noop := json.RawMessage(`{"kind":"noop"}`)
	isNoop := func(m json.RawMessage) bool { return bytes.Contains(m, []byte(`"kind":"noop"`)) }
	for size := len(ops) / 2; size >= 1 && time.Now().Before(deadline); size /= 2 {
		for i := 0; i+size <= len(ops) && time.Now().Before(deadline); {
			var cands []replay
			var idx []int
			for j := i; j+size <= len(ops) && len(cands) < 8; j += size {
				all := true
				for k := j; k < j+size; k++ {
					if !isNoop(ops[k]) {
						all = false
					}
				}
				if all {
					continue
				}
				cp := append([]json.RawMessage(nil), ops...)
				for k := j; k < j+size; k++ {
					cp[k] = noop
				}
				cands = append(cands, replay{Plan: mk(cp), Schedule: sched})
				idx = append(idx, j)
			}
			if len(cands) == 0 {
				break
			}
			brs := try(cands)
			advanced := false
			for n, br := range brs {
				if has(br) {
					j := idx[n]
					for k := j; k < j+size; k++ {
						ops[k] = noop
					}
					plan = mk(ops)
					advanced = true
					break
				}
			}
			i = idx[len(idx)-1] + size
			_ = advanced
		}
	}
	// 2. truncate the schedule (the default policy finishes the run)
	lo, hi := 0, len(sched)
	for lo < hi && time.Now().Before(deadline) {
		mid := (lo + hi) / 2
		brs := try([]replay{{Plan: plan, Schedule: sched[:mid]}})
		if len(brs) == 1 && has(brs[0]) {
			hi = mid
		} else {
			lo = mid + 1
		}
	}
	if hi < len(sched) {
		brs := try([]replay{{Plan: plan, Schedule: sched[:hi]}})
		if len(brs) == 1 && has(brs[0]) {
			sched = sched[:hi]
		}
	}
	// 3. drop single schedule entries (clock steps first)
	for pass := 0; pass < 2 && time.Now().Before(deadline); pass++ {
		for i := len(sched) - 1; i >= 0 && time.Now().Before(deadline); {
			var cands []replay
			var idx []int
			for j := i; j >= 0 && len(cands) < 8; j-- {
				if pass == 0 && !strings.HasPrefix(sched[j], "clock:") {
					continue
				}
				cp := append(append([]string(nil), sched[:j]...), sched[j+1:]...)
				cands = append(cands, replay{Plan: plan, Schedule: cp})
				idx = append(idx, j)
			}
			if len(cands) == 0 {
				break
			}
			brs := try(cands)
			hit := -1
			for n, br := range brs {
				if has(br) {
					hit = n
					break
				}
			}
			if hit >= 0 {
				j := idx[hit]
				sched = append(append([]string(nil), sched[:j]...), sched[j+1:]...)
				i = j - 1
			} else {
				i = idx[len(idx)-1] - 1
			}
		}
	}
	return plan, sched
}

// ---------------------------------------------------------------------------------

func writeEvidence(c *checkCfg, b *build, a *agg, nviol int, wall, buildS float64) {
	faultKeys := make([]string, 0, len(a.faults))
	for k := range a.faults {
		faultKeys = append(faultKeys, k)
	}
	sort.Strings(faultKeys)
	var warnings []string
	for _, k := range a.expect {
		if a.probes[k] == 0 {
			warnings = append(warnings, "probe never hit: "+k)
		}
	}
	samples := []interface{}{}
	for i, s := range a.samples {
		if i >= 2 {
			break
		}
		tr := s.Trace
		if len(tr) > 120 {
			tr = tr[:120]
		}
		samples = append(samples, map[string]interface{}{"run_seed": s.RunSeed, "plan": abridgePlan(s.Plan), "schedule_len": len(s.Schedule), "schedule_head": head(s.Schedule, 60), "trace_head": tr})
	}
	if len(samples) == 0 {
		samples = append(samples, map[string]interface{}{"note": "no non-trivial run in this batch"})
	}
	simWall := wall - buildS
	if simWall <= 0 {
		simWall = wall
	}
	cov := map[string]interface{}{
		"evaluations":         a.runs,
		"distinct_nontrivial": len(a.nonTrivial),
		"rule":                a.rule,
		"samples":             samples,
		"steps":               a.steps,
		"simulated_seconds":   float64(a.simMs) / 1000,
		"runs_per_hour":       int(float64(a.runs) / simWall * 3600),
		"base_seed":           c.seed,
		"run_seeds":           fmt.Sprintf("splitmix(base_seed, run index) for run index 0..%d", a.runs-1),
		"faults_fired":        a.faults,
		"probes":              a.probes,
		"abstract_states":     len(a.states),
		"states_measure":      "distinct multisets of (task kind, yield site | blocked | in-upstream | in-store) over live tasks, sampled after every step",
		"stuck_runs":          a.stuck,
		"step_budget_hit":     a.budgetHit,
		"yield_sites":         b.sites,
		"workers":             c.workers,
		"real_components":     realComponents,
		"stub_components":     stubComponents,
		"warnings":            warnings,
		"exhaustive":          false,
	}
	if len(a.transientDeaths) > 0 {
		cov["worker_deaths_not_reproduced"] = map[string]interface{}{"count": len(a.transientDeaths), "what": a.transientDeaths,
			"meaning": "a worker process ended with a fatal error of the Go runtime; every run of its chunk was then executed alone in a fresh process and the whole chunk once more, and none of them ended a process again: the death is not attributable to a run (see DESIGN.md 16.4, go1.26 synctest bubbles that end with blocked goroutines)"}
	}
	if c.prop == "C20" {
		cov["race_build_runs"] = a.raceRuns
		cov["race_reports_total"] = a.probes["race-reports-total"]
		cov["race_reports_attributed_to_harness"] = a.probes["race-reports-harness-noise"]
		cov["race_instrument"] = "same schedules executed by a -race build with the scheduler's synchronisation hidden (RaceDisable around hand-offs, one-directional controller->task RaceRelease/RaceAcquire); a report counts only if the innermost non-stdlib frames of both accesses are pike's or its dependencies'"
	}
	ev := map[string]interface{}{
		"property_id": c.prop,
		"tier":        c.tier,
		"seed":        c.seed,
		"level":       c.level,
		"coverage":    cov,
		"assumptions": assumptions,
		"wall_s":      wall,
		"violations":  nviol,
	}
	dir := filepath.Join(verifRoot, "evidence")
	_ = os.MkdirAll(dir, 0o755)
	data, _ := json.MarshalIndent(ev, "", " ")
	if err := os.WriteFile(filepath.Join(dir, c.prop+".json"), data, 0o644); err != nil {
		fatal2("writing evidence: %v", err)
	}
}

// abridgePlan keeps a sample readable: long lists are cut (the cut is stated in place).
func abridgePlan(raw json.RawMessage) interface{} {
	var p map[string]interface{}
	if err := json.Unmarshal(raw, &p); err != nil {
		return raw
	}
	cut := func(v interface{}, n int) interface{} {
		l, ok := v.([]interface{})
		if !ok || len(l) <= n {
			return v
		}
		return append(l[:n:n], fmt.Sprintf("... %d more", len(l)-n))
	}
	p["ops"] = cut(p["ops"], 40)
	p["store_faults"] = cut(p["store_faults"], 40)
	for _, k := range []string{"scripts", "get_faults"} {
		if m, ok := p[k].(map[string]interface{}); ok {
			keys := make([]string, 0, len(m))
			for kk := range m {
				keys = append(keys, kk)
			}
			sort.Strings(keys)
			out := map[string]interface{}{}
			for i, kk := range keys {
				if i >= 6 {
					out["..."] = fmt.Sprintf("%d more keys", len(keys)-6)
					break
				}
				out[kk] = cut(m[kk], 4)
			}
			p[k] = out
		}
	}
	return p
}

func head(s []string, n int) []string {
	if len(s) > n {
		return s[:n]
	}
	return s
}

var allProfiles = []string{"C01", "C02", "C03", "C04", "C05", "C06", "C07", "C08", "C09", "C10", "C11", "C15", "C16", "C18", "C19", "C20"}

var realComponents = []string{
	"pike server pipeline assembled by server.Start (error, fresh, responder, cache, proxy middleware)",
	"pike cache: dispatcher, sharded LRU (groupcache/lru), httpCache state machine, HTTPResponse, persistence encoding",
	"pike location, upstream (picker, proxy middleware), compress, config conversion, store registry",
	"vicanso/elton router + context + proxy/fresh/error middleware, net/http/httputil.ReverseProxy",
	"vicanso/upstream selection policies and health-check state machine (dial is the seam)",
}

var stubComponents = []string{
	"origin servers: simulated http.RoundTripper (scripted replies and faults)",
	"persistent store: simulated disk behind store.Store (badger/redis/mongo are never run)",
	"TCP listener + net/http wire layer: requests are delivered by calling the elton handler directly",
	"health-check TCP dial: simulated network (patched copy of vicanso/upstream v0.2.0 with a dial seam)",
	"main.update(): the harness performs the same five Reset calls + server.Start in the same order",
	"wall clock, timers, tickers: testing/synctest fake clock",
}

var assumptions = []string{
	"sampling, not proof: no counterexample among the seeded schedules x fault sequences explored",
	"goroutine interleaving is controlled at generated yield points (every Lock/RLock, channel operation, select, sync.Map/atomic access, go statement of pike's cache/server/location/upstream/compress/store packages); code between two yield points runs atomically",
	"the simulated origin, store, network and net/http response writer behave like the real ones in the respects listed in DESIGN.md section 2",
}

func cmdReplay(args []string) int {
	if len(args) < 1 {
		fatal2("usage: vsim replay <file>")
	}
	data, err := os.ReadFile(args[0])
	if err != nil {
		fatal2("%v", err)
	}
	var f struct {
		Property        string          `json:"property"`
		Profile         string          `json:"profile"`
		Violation       violation       `json:"violation"`
		Plan            json.RawMessage `json:"plan"`
		Schedule        []string        `json:"schedule"`
		Hash            string          `json:"hash"`
		ReplayMode      string          `json:"replay_mode"`
		Reproducibility string          `json:"reproducibility"`
		Chunk           *struct {
			BaseSeed uint64 `json:"base_seed"`
			From     int    `json:"from"`
			Count    int    `json:"count"`
			Tier     string `json:"tier"`
		} `json:"chunk"`
	}
	if err := json.Unmarshal(data, &f); err != nil {
		fatal2("%v", err)
	}
	b := prepare(f.Violation.Kind == "data-race")
	defer b.cleanup()
	want := f.Violation.Property + "/" + f.Violation.Kind
	tries := 1
	if f.ReplayMode != "single-run" || !strings.HasPrefix(f.Reproducibility, "2 of 2") {
		tries = 6
	}
	for t := 0; t < tries; t++ {
		var r *result
		var err error
		if f.ReplayMode == "crash" && f.Chunk != nil {
			_, err := b.runWorker(&spec{Profile: f.Profile, Tier: f.Chunk.Tier, Seed: f.Chunk.BaseSeed, From: f.Chunk.From, Count: 1}, 600*time.Second)
			if d, ok := err.(*workerDied); ok {
				fmt.Printf("VIOLATION property=%s replay=%s\n  kind=process-crash\n  %s\n", f.Property, args[0], d.reason())
				return 1
			}
			continue
		}
		if f.ReplayMode == "chunk-prefix" && f.Chunk != nil {
			r, err = b.runWorker(&spec{Profile: f.Profile, Tier: f.Chunk.Tier, Seed: f.Chunk.BaseSeed, From: f.Chunk.From, Count: f.Chunk.Count, KeepTrace: false}, 900*time.Second)
		} else {
			rep := 0
			if f.ReplayMode == "repeat" {
				rep = 1000
			}
			r, err = b.runWorker(&spec{Profile: f.Profile, Replay: &replay{Plan: f.Plan, Schedule: f.Schedule}, Repeat: rep, KeepTrace: rep == 0}, 900*time.Second)
		}
		if err != nil {
			fatal2("%v", err)
		}
		if t == 0 {
			for _, s := range r.Samples {
				for _, l := range s.Trace {
					fmt.Println(l)
				}
			}
			fmt.Printf("history hash %s (recorded %s)\n", r.Hashes["-1"], f.Hash)
		}
		for _, v := range r.Violations {
			if v.Violation.Property+"/"+v.Violation.Kind == want {
				fmt.Printf("VIOLATION property=%s replay=%s\n  kind=%s signature=%q\n  %s\n", f.Property, args[0], v.Violation.Kind, v.Violation.Sig, v.Violation.Detail)
				return 1
			}
		}
	}
	fmt.Printf("replay of %s: violation %s did not occur on this tree (%d attempt(s))\n", args[0], want, tries)
	return 0
}

// cmdDeterminism: every run index is executed in several processes with different
// GOMAXPROCS and -test.cpu settings; the history hashes must agree.
func cmdDeterminism(args []string) int {
	fs := flag.NewFlagSet("determinism", flag.ExitOnError)
	profiles := fs.String("profiles", "", "comma separated (default: all)")
	runs := fs.Int("runs", 64, "runs per profile")
	seed := fs.Uint64("seed", envSeed(), "base seed")
	_ = fs.Parse(args)
	plist := allProfiles
	if *profiles != "" {
		plist = strings.Split(*profiles, ",")
	}
	b := prepare(false)
	defer b.cleanup()
	bad := 0
	for _, p := range plist {
		type variant struct{ env []string }
		variants := [][]string{{"GOMAXPROCS=1"}, {"GOMAXPROCS=4"}, {"GOMAXPROCS=16"}, {"GOMAXPROCS=16"}, {"GOMAXPROCS=2"}, {"GOMAXPROCS=8"}}
		var res []*result
		var wg sync.WaitGroup
		var mu sync.Mutex
		for _, v := range variants {
			wg.Add(1)
			go func(env []string) {
				defer wg.Done()
				r, err := b.runWorker(&spec{Profile: p, Tier: "quick", Seed: *seed, From: 0, Count: *runs}, 600*time.Second, env...)
				mu.Lock()
				defer mu.Unlock()
				if err != nil {
					fmt.Fprintf(os.Stderr, "determinism %s: %v\n", p, err)
					bad++
					return
				}
				res = append(res, r)
			}(v)
		}
		wg.Wait()
		if len(res) < 2 {
			continue
		}
		diff := 0
		for k, h := range res[0].Hashes {
			for _, r := range res[1:] {
				if r.Hashes[k] != h {
					diff++
					fmt.Printf("NONDETERMINISM profile=%s run=%s: %s vs %s\n", p, k, h, r.Hashes[k])
					break
				}
			}
		}
		fmt.Printf("determinism %s: %d runs x %d processes, %d differing\n", p, len(res[0].Hashes), len(res), diff)
		bad += diff
	}
	if bad > 0 {
		return 2
	}
	return 0
}
