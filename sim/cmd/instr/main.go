// instr: debugging front end of the yield instrumenter.
package main

import (
	"fmt"
	"os"

	"verif/sim/instrument"
)

func main() {
	out := os.Args[1]
	res, err := instrument.Run(instrument.Options{Repo: "/repo", Pkgs: []string{"cache", "server", "location", "upstream", "compress", "store"}, GoPkgs: []string{"server", "cache", "compress", "location", "store"}, Out: out})
	if err != nil {
		fmt.Fprintln(os.Stderr, err)
		os.Exit(2)
	}
	for _, s := range res.Sites {
		fmt.Println(s)
	}
	for _, w := range res.Warnings {
		fmt.Println("WARN", w)
	}
	fmt.Println(res.Overlay)
}
